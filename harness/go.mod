module verifharness

go 1.23

require (
	github.com/btcsuite/btcd v0.20.1-beta
	golang.org/x/crypto v0.0.0-20210322153248-0c34fe9e7dc2
	massnet.org/mass-wallet v0.0.0
	pgregory.net/rapid v1.3.0
)

require (
	github.com/btcsuite/go-flags v0.0.0-20150116065318-6c288d648c1c // indirect
	github.com/gogo/protobuf v1.3.1 // indirect
	github.com/golang/protobuf v1.4.2 // indirect
	github.com/lestrrat/go-file-rotatelogs v0.0.0-20180223000712-d3151e2a480f // indirect
	github.com/lestrrat/go-strftime v0.0.0-20180220042222-ba3bf9c1d042 // indirect
	github.com/massnetorg/mass-core v0.0.0-20210809014450-d944e876e3fb // indirect
	github.com/pkg/errors v0.8.1 // indirect
	github.com/rifflock/lfshook v0.0.0-20180920164130-b9218ef580f5 // indirect
	github.com/shopspring/decimal v1.2.0 // indirect
	github.com/sirupsen/logrus v1.2.0 // indirect
	golang.org/x/sys v0.0.0-20210420205809-ac73e9fd8988 // indirect
	golang.org/x/term v0.0.0-20201126162022-7de9c90e9dd1 // indirect
	google.golang.org/protobuf v1.23.0 // indirect
)

replace massnet.org/mass-wallet => /repo
