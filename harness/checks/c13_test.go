package checks

import (
	"bytes"
	"encoding/hex"
	"math/big"
	"strconv"
	"strings"
	"testing"

	"massnet.org/mass-wallet/masswallet/keystore"
	"pgregory.net/rapid"
	"verifharness/ev"
	"verifharness/ref"
)

// ---- C13: mnemonic encoding is exactly BIP-39 -----------------------------------------------

var c13 = ev.Open("C13", "exploration",
	"rapid-generated entropies (5 legal sizes x patterns zero/ones/leading-zero/random, plus illegal sizes), passphrases, and word "+
		"sequences mutated from valid mnemonics (substitute/swap/truncate/extend/re-space/non-list word); oracle = independent bit-level "+
		"BIP-39 reference + published vectors. Non-trivial = entropy with a leading zero byte or all-0/all-1 pattern, or a mutated "+
		"sequence (distinct by hash of entropy/sequence).")

func genEntropy(t *rapid.T) ([]byte, string) {
	size := []int{16, 20, 24, 28, 32}[rapid.IntRange(0, 4).Draw(t, "sizeIdx")]
	pat := rapid.IntRange(0, 5).Draw(t, "pattern")
	e := rapid.SliceOfN(rapid.Byte(), size, size).Draw(t, "entropy")
	label := "random"
	switch pat {
	case 0:
		for i := range e {
			e[i] = 0
		}
		label = "all-zero"
	case 1:
		for i := range e {
			e[i] = 0xff
		}
		label = "all-one"
	case 2:
		n := rapid.IntRange(1, size-1).Draw(t, "lead")
		for i := 0; i < n; i++ {
			e[i] = 0
		}
		label = "leading-zero"
	case 3:
		// leading zero bits only
		e[0] &= byte(0xff >> uint(rapid.IntRange(1, 7).Draw(t, "zbits")))
		label = "leading-zero-bits"
	}
	if label == "random" && e[0] == 0 {
		label = "leading-zero"
	}
	return e, label
}

func checksummed(entropy []byte) []byte {
	// entropy || checksum bits as an integer, left-padded to len+1 bytes (spec: ENT+CS bits)
	words, _ := ref.Bip39Encode(entropy)
	x := new(big.Int)
	for _, w := range words {
		idx := 0
		for i, lw := range ref.English {
			if lw == w {
				idx = i
				break
			}
		}
		x.Lsh(x, 11)
		x.Or(x, big.NewInt(int64(idx)))
	}
	b := x.Bytes()
	out := make([]byte, len(entropy)+1)
	copy(out[len(out)-len(b):], b)
	return out
}

func propC13RoundTrip(t *rapid.T) {
	e, label := genEntropy(t)
	// printable-ASCII passphrases of every length class: short, around the wallet's own limit of 40
	// characters, and long ones that span several hash blocks of the key-derivation function
	pass := rapid.OneOf(rapid.StringMatching(`[ -~]{0,24}`), rapid.StringMatching(`[ -~]{25,48}`), rapid.StringMatching(`[ -~]{49,140}`)).Draw(t, "pass")
	want, err := ref.Bip39Encode(e)
	if err != nil {
		t.Fatalf("ref: %v", err)
	}
	wantM := strings.Join(want, " ")
	got, err := keystore.NewMnemonic(e)
	if err != nil {
		t.Fatalf("NewMnemonic(%x) error %v", e, err)
	}
	if got != wantM {
		t.Fatalf("NewMnemonic(%x) = %q, BIP-39 says %q", e, got, wantM)
	}
	back, err := keystore.EntropyFromMnemonic(got)
	if err != nil || !bytes.Equal(back, e) {
		t.Fatalf("EntropyFromMnemonic(%q) = %x,%v want %x", got, back, err, e)
	}
	raw, err := keystore.MnemonicToByteArray(got, true)
	if err != nil || !bytes.Equal(raw, e) {
		t.Fatalf("MnemonicToByteArray(raw)(%q) = %x,%v want %x", got, raw, err, e)
	}
	full, err := keystore.MnemonicToByteArray(got)
	if err != nil || !bytes.Equal(full, checksummed(e)) {
		t.Fatalf("MnemonicToByteArray(%q) = %x,%v want %x", got, full, err, checksummed(e))
	}
	if !keystore.IsMnemonicValid(got) {
		t.Fatalf("IsMnemonicValid(%q) false", got)
	}
	seed, err := keystore.NewSeedWithErrorChecking(got, pass)
	wantSeed := ref.Bip39Seed(wantM, pass)
	if err != nil || !bytes.Equal(seed, wantSeed) {
		t.Fatalf("seed(%q,%q) = %x,%v want %x", got, pass, seed, err, wantSeed)
	}
	if s2 := keystore.NewSeed(got, pass); !bytes.Equal(s2, wantSeed) {
		t.Fatalf("NewSeed mismatch")
	}
	c13.Case(hkey("rt", e, pass), label != "random", "roundtrip:"+label, "size:"+itoa(len(e)), "passphrase-length:"+map[bool]string{true: "<=24", false: map[bool]string{true: "25..48", false: ">48"}[len(pass) <= 48]}[len(pass) <= 24])
	c13.Sample("roundtrip:"+label, 2, map[string]string{"entropy": hex.EncodeToString(e), "mnemonic": got, "pass": pass})
}

func itoa(i int) string { return strconv.Itoa(i) }

func propC13IllegalSize(t *rapid.T) {
	n := rapid.IntRange(0, 48).Draw(t, "n")
	if n >= 16 && n <= 32 && n%4 == 0 {
		n++
	}
	e := rapid.SliceOfN(rapid.Byte(), n, n).Draw(t, "e")
	if m, err := keystore.NewMnemonic(e); err == nil {
		t.Fatalf("NewMnemonic accepted illegal entropy size %d -> %q", n, m)
	}
	c13.Case(hkey("ill", e), true, "illegal-size")
}

// mutate returns a word sequence string derived from a valid mnemonic and a label.
func mutateMnemonic(t *rapid.T, words []string) (string, string) {
	w := append([]string(nil), words...)
	sep := " "
	kind := rapid.IntRange(0, 11).Draw(t, "mut")
	label := ""
	switch kind {
	case 0:
		i := rapid.IntRange(0, len(w)-1).Draw(t, "i")
		w[i] = ref.English[rapid.IntRange(0, 2047).Draw(t, "word")]
		label = "substitute"
	case 1:
		i := rapid.IntRange(0, len(w)-1).Draw(t, "i")
		j := rapid.IntRange(0, len(w)-1).Draw(t, "j")
		w[i], w[j] = w[j], w[i]
		label = "swap"
	case 2:
		n := rapid.IntRange(0, len(w)-1).Draw(t, "n")
		w = w[:n]
		label = "truncate"
	case 3:
		n := rapid.IntRange(1, 6).Draw(t, "n")
		for i := 0; i < n; i++ {
			w = append(w, ref.English[rapid.IntRange(0, 2047).Draw(t, "xw")])
		}
		label = "extend"
	case 4:
		sep = pick(t, "sep", []string{"  ", "\t", "\n", " \t ", " ", "　"})
		label = "respace"
	case 5:
		i := rapid.IntRange(0, len(w)-1).Draw(t, "i")
		w[i] = pick(t, "bad", []string{"", "Abandon", "abandon.", "zzzz", "abando", "\x00", "ab andon", "zoo\x00", "ábandon"})
		label = "nonlist"
	case 6:
		// last word replaced by every-checksum candidate: exercises checksum acceptance both ways
		base := ref.English[rapid.IntRange(0, 2047).Draw(t, "lw")]
		w[len(w)-1] = base
		label = "lastword"
	case 7:
		label = "identity"
	case 9:
		// a word of the sentence cut down to a prefix of itself (the list's words are told apart by their
		// first four letters, and other tools accept such abbreviations - BIP-39 sentences consist of
		// whole list words); the reference decides: a prefix that happens to be a list word is a word
		i := rapid.IntRange(0, len(w)-1).Draw(t, "i")
		n := rapid.SampledFrom([]int{4, 4, 4, 3, 5, 2, 6}).Draw(t, "prefixLen")
		if n >= len(w[i]) {
			n = len(w[i]) - 1
		}
		w[i] = w[i][:n]
		label = "abbreviate"
	case 10:
		// one letter of one word changed, doubled or dropped
		i := rapid.IntRange(0, len(w)-1).Draw(t, "i")
		j := rapid.IntRange(0, len(w[i])-1).Draw(t, "letter")
		switch rapid.IntRange(0, 2).Draw(t, "edit") {
		case 0:
			w[i] = w[i][:j] + string(rune('a'+rapid.IntRange(0, 25).Draw(t, "to"))) + w[i][j+1:]
		case 1:
			w[i] = w[i][:j] + w[i][j:j+1] + w[i][j:]
		default:
			w[i] = w[i][:j] + w[i][j+1:]
		}
		label = "letter-edit"
	case 11:
		// every gap drawn on its own and wide (indented text, one word per line, CRLF, runs of blanks), with
		// wide margins: the sentence is the same word sequence, only far longer as a string than its canonical form
		ws := []string{" ", "\t", "\n", "\r\n", "  ", "    "}
		gap := func(name string, min, max int) string {
			n := rapid.IntRange(min, max).Draw(t, name)
			g := ""
			for k := 0; k < n; k++ {
				g += pick(t, "ws", ws)
			}
			return g
		}
		maxGap := rapid.SampledFrom([]int{2, 6, 12}).Draw(t, "maxGap")
		out := gap("lead", 0, 20)
		for i, x := range w {
			if i > 0 {
				out += gap("gap", 1, maxGap)
			}
			out += x
		}
		return out + gap("trail", 0, 20), "respace-wide"
	case 8:
		// leading/trailing whitespace
		return pick(t, "lead", []string{" ", "\n", ""}) + strings.Join(w, " ") + pick(t, "trail", []string{" ", "\t\n", ""}), "padded"
	}
	return strings.Join(w, sep), label
}

func propC13Acceptance(t *rapid.T) {
	e, _ := genEntropy(t)
	words, _ := ref.Bip39Encode(e)
	m, label := mutateMnemonic(t, words)
	fields := strings.Fields(m)
	refEnt, refErr := ref.Bip39Decode(fields)
	valid := refErr == nil
	shapeOK := refErr == nil || refErr == ref.ErrRefChecksum

	ent, err := keystore.EntropyFromMnemonic(m)
	if (err == nil) != valid {
		t.Fatalf("EntropyFromMnemonic(%q): accepted=%v, BIP-39 validity=%v (%v)", m, err == nil, valid, refErr)
	}
	if valid && !bytes.Equal(ent, refEnt) {
		t.Fatalf("EntropyFromMnemonic(%q) = %x want %x", m, ent, refEnt)
	}
	raw, err := keystore.MnemonicToByteArray(m, true)
	if (err == nil) != valid {
		t.Fatalf("MnemonicToByteArray(%q): accepted=%v, BIP-39 validity=%v (%v)", m, err == nil, valid, refErr)
	}
	if valid && !bytes.Equal(raw, refEnt) {
		t.Fatalf("MnemonicToByteArray(raw)(%q) = %x want %x", m, raw, refEnt)
	}
	_, err = keystore.NewSeedWithErrorChecking(m, "")
	if (err == nil) != valid {
		t.Fatalf("NewSeedWithErrorChecking(%q): accepted=%v, validity=%v", m, err == nil, valid)
	}
	if keystore.IsMnemonicValid(m) != shapeOK {
		t.Fatalf("IsMnemonicValid(%q) = %v, want %v (length and list words only)", m, !shapeOK, shapeOK)
	}
	acc := "rejected"
	if valid {
		acc = "accepted"
	}
	c13.Case(hkey("acc", m), label != "identity", "mut:"+label, "mut:"+label+":"+acc)
	c13.Sample("mut:"+label+":"+acc, 1, map[string]interface{}{"sequence": m, "valid": valid})
}

func TestC13(t *testing.T) {
	t.Run("vectors", func(t *testing.T) {
		for _, v := range ref.Bip39Vectors() {
			e, _ := hex.DecodeString(v[0])
			m, err := keystore.NewMnemonic(e)
			if err != nil || m != v[1] {
				t.Fatalf("vector %s: NewMnemonic = %q,%v", v[0], m, err)
			}
			s, err := keystore.NewSeedWithErrorChecking(v[1], "TREZOR")
			if err != nil || hex.EncodeToString(s) != v[2] {
				t.Fatalf("vector %s: seed = %x,%v", v[0], s, err)
			}
			c13.Case(hkey("vec", v[0]), true, "spec-vector")
		}
	})
	t.Run("roundtrip", rapid.MakeCheck(propC13RoundTrip))
	t.Run("illegal", rapid.MakeCheck(propC13IllegalSize))
	t.Run("acceptance", rapid.MakeCheck(propC13Acceptance))
}

func FuzzC13(f *testing.F) {
	for _, v := range ref.Bip39Vectors() {
		f.Add(v[1])
	}
	f.Add("abandon abandon abandon abandon abandon abandon abandon abandon abandon abandon abandon abandon")
	f.Add("zoo  zoo\tzoo zoo zoo zoo zoo zoo zoo zoo zoo wrong")
	f.Add("")
	f.Fuzz(func(t *testing.T, m string) {
		_, refErr := ref.Bip39Decode(strings.Fields(m))
		valid := refErr == nil
		if _, err := keystore.EntropyFromMnemonic(m); (err == nil) != valid {
			t.Fatalf("EntropyFromMnemonic(%q) accepted=%v validity=%v", m, err == nil, valid)
		}
		if _, err := keystore.MnemonicToByteArray(m); (err == nil) != valid {
			t.Fatalf("MnemonicToByteArray(%q) accepted=%v validity=%v", m, err == nil, valid)
		}
	})
}
