//go:build verif

package checks

import (
	"testing"

	"github.com/massnetorg/mass-core/wire"
	"pgregory.net/rapid"
	"verifharness/sim"
)

// Deterministic reproducers of shrunk C09 failures.

// fundWallet gives wallet 0 n mature coinbase coins of the given value and returns their outpoints.
func (w *World) fundWallet(t *rapid.T, n int, value int64) []wire.OutPoint {
	h := w.wallets[0].issued[0].Hash
	var ops []wire.OutPoint
	for i := 0; i < n; i++ {
		var b *blockT
		w.withChainChange(t, func() {
			b = w.mineFixed(t, []*wire.TxOut{wire.NewTxOut(value, sim.StdScript(h))}, nil, true)
		})
		ops = append(ops, wire.OutPoint{Hash: b.MsgBlock().Transactions[0].TxHash(), Index: 0})
	}
	for i := 0; i < 4; i++ {
		w.withChainChange(t, func() { w.mineFixed(t, nil, nil, true) })
	}
	return ops
}

func (w *World) deliverPending(t *rapid.T, tx *wire.MsgTx) {
	if err := w.env.H.VerifProcessTx(tx); err != nil {
		t.Fatalf("pending tx refused: %v", err)
	}
	w.everSeen[tx.TxHash()] = tx
	if w.txRelevant(tx, false) {
		w.pending[tx.TxHash()] = tx
	}
	w.logf("mempool fixed %s", tx.TxHash().String()[:10])
}

func spendTo(ops []wire.OutPoint, outs ...*wire.TxOut) *wire.MsgTx {
	tx := wire.NewMsgTx()
	for _, op := range ops {
		tx.AddTxIn(sim.Spend(op.Hash, op.Index, wire.MaxTxInSequenceNum))
	}
	for _, o := range outs {
		tx.AddTxOut(o)
	}
	return tx
}

func regressC09(t *rapid.T, body func(w *World, coins []wire.OutPoint)) {
	useProfile(profSmall)
	w := newWorld(t, 1, 20, nil)
	defer w.close()
	w.c09mode = true
	coins := w.fundWallet(t, 3, 500000000)
	body(w, coins)
	w.auditPending(t)
	w.auditLedger(t)
}

func TestC09Regress(t *testing.T) {
	// (a) a pending spend of a wallet coin must flag the coin
	t.Run("flag", func(t *testing.T) {
		rapid.Check(t, func(t *rapid.T) {
			regressC09(t, func(w *World, c []wire.OutPoint) {
				w.deliverPending(t, spendTo(c[:1], wire.NewTxOut(499990000, sim.StdScript(w.strangers[0]))))
			})
		})
	})
	// (b) descendant through an output the wallet does not own must vanish with its conflicted parent
	t.Run("descendant", func(t *testing.T) {
		rapid.Check(t, func(t *rapid.T) {
			regressC09(t, func(w *World, c []wire.OutPoint) {
				h := w.wallets[0].issued[0].Hash
				parent := spendTo(c[:1], wire.NewTxOut(499990000, sim.StdScript(w.strangers[0])))
				w.deliverPending(t, parent)
				child := spendTo([]wire.OutPoint{{Hash: parent.TxHash(), Index: 0}}, wire.NewTxOut(499980000, sim.StdScript(h)))
				w.deliverPending(t, child)
				w.auditPending(t)
				conflict := spendTo(c[:1], wire.NewTxOut(499970000, sim.StdScript(w.strangers[1])))
				w.withChainChange(t, func() { w.mineFixed(t, nil, []*wire.MsgTx{conflict}, true) })
			})
		})
	})
	// (c) two pending spenders of one coin; one of them is purged through another input
	t.Run("two-spenders", func(t *testing.T) {
		rapid.Check(t, func(t *rapid.T) {
			regressC09(t, func(w *World, c []wire.OutPoint) {
				a := spendTo(c[:2], wire.NewTxOut(999990000, sim.StdScript(w.strangers[0])))  // spends c0 and c1
				b := spendTo(c[1:2], wire.NewTxOut(499990000, sim.StdScript(w.strangers[1]))) // spends c1
				w.deliverPending(t, a)
				w.deliverPending(t, b)
				w.auditPending(t)
				conflict := spendTo(c[:1], wire.NewTxOut(499970000, sim.StdScript(w.strangers[2]))) // double-spends c0 -> a vanishes
				w.withChainChange(t, func() { w.mineFixed(t, nil, []*wire.MsgTx{conflict}, true) })
			})
		})
	})
	// (d) un-confirmed by a reorg and readable again
	t.Run("unconfirm", func(t *testing.T) {
		rapid.Check(t, func(t *rapid.T) {
			regressC09(t, func(w *World, c []wire.OutPoint) {
				x := spendTo(c[:1], wire.NewTxOut(499990000, sim.StdScript(w.strangers[0])))
				w.deliverPending(t, x)
				w.withChainChange(t, func() { w.mineFixed(t, nil, []*wire.MsgTx{x}, true) })
				w.auditPending(t)
				w.withChainChange(t, func() {
					if err := w.node.DetachTip(); err != nil {
						t.Fatalf("HARNESS: %v", err)
					}
					w.mineFixed(t, nil, nil, false)
					w.mineFixed(t, nil, nil, true)
				})
			})
		})
	})
}
