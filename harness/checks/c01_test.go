//go:build verif

package checks

import (
	"fmt"
	"sort"
	"strings"
	"testing"

	"github.com/massnetorg/mass-core/massutil"
	"github.com/massnetorg/mass-core/wire"
	"pgregory.net/rapid"
	"verifharness/ev"
)

// ---- C01: wallet ledger equals what the best chain pays to its addresses ---------------------

var c01 = ev.Open("C01", "exploration",
	"rapid state machine over a simulated node (real mass-core chain DB + address index) and the real wallet in stepped mode: "+
		"actions newAddress / mine (coinbase, standard, staking, old+new binding, nulldata outputs; spends of any mature coin; spend "+
		"chains inside a block; transactions shared by wallets) / reorg of depth 1..8 with each rolled-back transaction re-mined, dropped "+
		"or double-spent on the new branch and ONE notification for the new tip / silent (un-announced) blocks / deliver one queued "+
		"notification / audit. Oracle = ledger recomputed by a plain fold over the node's best chain with consensus maturity formulas, "+
		"compared with UseWallet, WalletBalance, AddressBalance, GetUtxo, SyncedTo at every quiescent point. Non-trivial = history "+
		"with a wallet-relevant transaction AND (a reorg disconnecting a relevant block, or >=2 queued notifications at a delivery, or "+
		"an in-block spend chain, or a silent block); distinct by hash of the action journal.")

var c01ExcludedShort int

func amt(a massutil.Amount) int64 { return a.IntValue() }

// auditLedger compares every ledger observable of every ready wallet with the model.
func (w *World) auditLedger(t *rapid.T) {
	tip := w.node.Height()
	synced, err := w.env.W.SyncedTo()
	if err != nil {
		t.Fatalf("SyncedTo: %v", err)
	}
	if synced != tip {
		t.Fatalf("all %d announced tips processed but the wallet is synced to %d, node tip is %d\n  %s", tip, synced, tip, w.journalTail(25))
	}
	if bb := w.env.H.VerifBestBlock(); bb.Hash != *w.node.Tip().Hash() {
		t.Fatalf("handler tip %v != node tip %v at height %d", bb.Hash, w.node.Tip().Hash(), tip)
	}
	view := w.chainView(t)
	for wi, m := range w.wallets {
		ready, removing, exists := w.walletStatus(t, m.id)
		if !exists || !ready || removing {
			continue
		}
		coins := walletCoins(view, m.owns)
		info, err := w.env.W.UseWallet(m.id)
		if err != nil {
			t.Fatalf("UseWallet(%s): %v", m.id, err)
		}
		want0 := balanceOf(coins, tip, 0)
		if amt(info.TotalBalance) != want0.Total {
			t.Fatalf("wallet %d: UseWallet total balance %d, best chain pays %d unspent\n  %s\n%s", wi, amt(info.TotalBalance), want0.Total, w.journalTail(25), dumpCoins(coins, tip))
		}
		confsList := []uint32{0, 1, uint32(rapid.IntRange(2, 8).Draw(t, "confs"))}
		for _, c := range confsList {
			wb, err := w.env.W.WalletBalance(c, true)
			if err != nil {
				t.Fatalf("WalletBalance(%d): %v", c, err)
			}
			want := balanceOf(coins, tip, uint64(c))
			if amt(wb.Total) != want0.Total {
				t.Fatalf("wallet %d: WalletBalance(%d).Total %d want %d", wi, c, amt(wb.Total), want0.Total)
			}
			if amt(wb.Spendable) != want.Spendable || amt(wb.WithdrawableStaking) != want.WStaking || amt(wb.WithdrawableBinding) != want.WBinding {
				t.Fatalf("wallet %d tip %d: WalletBalance(confs=%d) spendable/staking/binding = %d/%d/%d, consensus maturity gives %d/%d/%d\n  %s\n%s",
					wi, tip, c, amt(wb.Spendable), amt(wb.WithdrawableStaking), amt(wb.WithdrawableBinding), want.Spendable, want.WStaking, want.WBinding, w.journalTail(25), dumpCoins(coins, tip))
			}
		}
		// per-address views: all addresses and a generated subset
		all := m.stdAddrs()
		subsets := [][]string{nil}
		if len(all) > 1 {
			var sub []string
			for _, a := range all {
				if rapid.Bool().Draw(t, "inSubset") {
					sub = append(sub, a)
				}
			}
			if len(sub) > 0 {
				subsets = append(subsets, sub)
			}
		}
		for _, sub := range subsets {
			queried := sub
			if sub == nil {
				queried = all
			}
			mc := uint32(rapid.IntRange(0, 3).Draw(t, "addrConfs"))
			ab, err := w.env.W.AddressBalance(mc, sub)
			if err != nil {
				t.Fatalf("AddressBalance: %v", err)
			}
			gotAB := map[string][4]int64{}
			for _, b := range ab {
				if _, dup := gotAB[b.Address]; dup {
					t.Fatalf("AddressBalance lists %s twice", b.Address)
				}
				gotAB[b.Address] = [4]int64{amt(b.Total), amt(b.Spendable), amt(b.WithdrawableStaking), amt(b.WithdrawableBinding)}
			}
			utx, err := w.env.W.GetUtxo(sub)
			if err != nil {
				t.Fatalf("GetUtxo: %v", err)
			}
			for _, addr := range queried {
				var h [32]byte
				for _, ia := range m.issued {
					if ia.Std == addr {
						h = ia.Hash
					}
				}
				var mine []*Coin
				for _, c := range coins {
					if c.Hash == h {
						mine = append(mine, c)
					}
				}
				wantB := balanceOf(mine, tip, uint64(mc))
				g, ok := gotAB[addr]
				if !ok {
					t.Fatalf("wallet %d: AddressBalance has no entry for issued address %s", wi, addr)
				}
				if g != [4]int64{wantB.Total, wantB.Spendable, wantB.WStaking, wantB.WBinding} {
					t.Fatalf("wallet %d addr %s tip %d: AddressBalance(confs=%d) = %v want %v\n  %s\n%s", wi, addr, tip, mc, g,
						[4]int64{wantB.Total, wantB.Spendable, wantB.WStaking, wantB.WBinding}, w.journalTail(25), dumpCoins(mine, tip))
				}
				// unspent list of this address
				got := map[wire.OutPoint]bool{}
				for _, u := range utx[addr] {
					var hh wire.Hash
					if err := hhFromStr(&hh, u.TxId); err != nil {
						t.Fatalf("GetUtxo: bad txid %q", u.TxId)
					}
					op := wire.OutPoint{Hash: hh, Index: u.Vout}
					if got[op] {
						t.Fatalf("wallet %d: GetUtxo lists %v twice under %s", wi, op, addr)
					}
					got[op] = true
					var mc *Coin
					for _, c := range mine {
						if c.Op == op {
							mc = c
						}
					}
					if mc == nil {
						t.Fatalf("wallet %d tip %d: GetUtxo reports %v (amount %d, height %d) under %s, but the best chain has no such unspent output for that address\n  %s\n%s",
							wi, tip, op, amt(u.Amount), u.BlockHeight, addr, w.journalTail(25), dumpCoins(mine, tip))
					}
					if amt(u.Amount) != mc.Value || u.BlockHeight != mc.Height {
						t.Fatalf("wallet %d: GetUtxo %v amount/height %d/%d, chain says %d/%d", wi, op, amt(u.Amount), u.BlockHeight, mc.Value, mc.Height)
					}
					if uint64(u.Confirmations) != tip-mc.Height+1 {
						t.Fatalf("wallet %d: GetUtxo %v confirmations %d want %d", wi, op, u.Confirmations, tip-mc.Height+1)
					}
					spendable := uint64(u.Confirmations) >= uint64(u.Maturity)
					if spendable != (tip-mc.Height+1 >= requiredConfs(mc)) {
						t.Fatalf("wallet %d tip %d: GetUtxo %v (%s, created at %d, coinbase=%v) confirmations %d maturity %d => spendable=%v, consensus requires %d confirmations",
							wi, tip, op, mc.Class, mc.Height, mc.Coinbase, u.Confirmations, u.Maturity, spendable, requiredConfs(mc))
					}
				}
				for _, c := range mine {
					if c.Value != 0 && !got[c.Op] {
						t.Fatalf("wallet %d tip %d: best chain pays %v (%d, %s, height %d) to %s and has not spent it, but GetUtxo does not list it\n  %s",
							wi, tip, c.Op, c.Value, c.Class, c.Height, addr, w.journalTail(25))
					}
				}
			}
		}
		// the same ledger as clients see it through the API handlers
		w.auditLedgerAPI(t, wi, m, coins, tip)
	}
}

func hhFromStr(h *wire.Hash, s string) error {
	x, err := wire.NewHashFromStr(s)
	if err != nil {
		return err
	}
	*h = *x
	return nil
}

func dumpCoins(cs []*Coin, tip uint64) string {
	var sb strings.Builder
	sorted := append([]*Coin(nil), cs...)
	sort.Slice(sorted, func(i, j int) bool { return sorted[i].Height < sorted[j].Height })
	for _, c := range sorted {
		fmt.Fprintf(&sb, "    model coin %v:%d value=%d class=%s h=%d coinbase=%v confs=%d req=%d\n", c.Op.Hash.String()[:10], c.Op.Index, c.Value, c.Class, c.Height, c.Coinbase, tip-c.Height+1, requiredConfs(c))
	}
	return sb.String()
}

func propC01(t *rapid.T) {
	useProfile(profSmall)
	nW := rapid.IntRange(1, 3).Draw(t, "wallets")
	if rapid.IntRange(0, 3).Draw(t, "withInternal") == 0 {
		// wallets restored with internal (change-branch) addresses, which receive coins like the others
		worldInternalHint = uint32(rapid.IntRange(1, 2).Draw(t, "internalIndex"))
	}
	w := newWorld(t, nW, 20, nil)
	worldInternalHint = 0
	defer w.close()
	w.allowZeroValue = rapid.IntRange(0, 2).Draw(t, "zeroValueOutputs") == 0
	audits := 0
	t.Repeat(map[string]func(*rapid.T){
		"newAddress": func(t *rapid.T) {
			m := w.wallets[rapid.IntRange(0, len(w.wallets)-1).Draw(t, "wallet")]
			if len(m.issued) >= 6 {
				t.Skip("enough addresses")
			}
			class := uint16(massutil.AddressClassWitnessV0)
			if rapid.IntRange(0, 3).Draw(t, "stakingClass") == 0 {
				class = massutil.AddressClassWitnessStaking
			}
			if _, err := w.issueAddress(t, m, class); err != nil {
				t.Fatalf("NewAddress: %v", err)
			}
		},
		"mine":  func(t *rapid.T) { w.actMine(t, true) },
		"mine2": func(t *rapid.T) { w.actMine(t, true) },
		"silent": func(t *rapid.T) {
			if rapid.IntRange(0, 2).Draw(t, "doSilent") > 0 {
				t.Skip("rare action")
			}
			w.actMine(t, false)
		},
		"reorg":    w.actReorg,
		"deliver":  w.actDeliver,
		"deliver2": w.actDeliver,
		"": func(t *rapid.T) {
			if w.quiescent(t) {
				w.auditLedger(t)
				audits++
			}
		},
	})
	// final convergence: announce the tip if it was silent, deliver everything, audit
	if !w.tipAnnounced {
		w.actMine(t, true)
	}
	w.deliverAll(t)
	w.auditLedger(t)
	audits++
	flags := w.sortedFlags()
	nt := false
	relevantTx := w.flags["coinbase-to-wallet"] || w.flags["staking-output"] || w.flags["tx-shared-by-two-wallets"] || len(w.chainRelevant()) > 0
	if relevantTx && (w.flags["reorg-disconnects-relevant-tx"] || w.flags["queued>=2"] || w.flags["in-block-spend-chain"] || w.flags["silent-import"]) {
		nt = true
	}
	c01.Case(hkey(strings.Join(w.journal, "\n")), nt, flags...)
	c01.Label("audits", audits)
	if nt {
		c01.Sample(strings.Join(flags, "+"), 1, w.journal)
	}
}

// chainRelevant lists best-chain transactions that pay a wallet.
func (w *World) chainRelevant() []wire.Hash {
	var out []wire.Hash
	for _, b := range w.node.Chain {
		for _, tx := range b.MsgBlock().Transactions {
			for _, o := range tx.TxOut {
				_, h, _, _ := classify(o.PkScript)
				for _, m := range w.wallets {
					if m.owns[h] {
						out = append(out, tx.TxHash())
					}
				}
			}
		}
	}
	return out
}

func TestC01(t *testing.T) {
	t.Run("ledger", rapid.MakeCheck(propC01))
	c01.Excluded(c01ExcludedShort)
}
