//go:build verif

package checks

import (
	"math/big"
	"strings"
	"testing"

	clicmd "massnet.org/mass-wallet/cmd/masswalletcli/cmd"
	"pgregory.net/rapid"
	"verifharness/ref"
)

// ---- C15 (CLI): the amount arguments of the command-line client --------------------------------
//
// cmd/masswalletcli/cmd/cmd_binding.go parses amounts through stringToAmount: an optional unit suffix
// "MASS" and surrounding blanks around a numeral that goes to api.StringToAmount. The oracle strips
// exactly one trailing "MASS" and the blanks and then demands the reference parser's verdict and value.

var c15Suffixes = []string{"", "", "MASS", " MASS", "MASS ", "  MASS", "S", "A", "M", "MAS", "ASS", "SS", "MASSMASS", " MASS MASS", "mass", "Mass", "MASSS", "SMAS", " S", "MASS.", "MA SS"}

func propC15Cli(t *rapid.T) {
	s, label := genAmountString(t)
	suffix := rapid.SampledFrom(c15Suffixes).Draw(t, "suffix")
	in := s + suffix
	if rapid.IntRange(0, 4).Draw(t, "lead") == 0 {
		in = rapid.SampledFrom([]string{" ", "\t", "  "}).Draw(t, "leadWs") + in
	}
	core := strings.TrimSpace(strings.TrimSuffix(in, "MASS"))
	want, class := ref.ParseAmount(core)
	got, err := clicmd.VerifStringToAmount(in)
	acc := "rejected"
	if class == ref.AmountValid {
		acc = "accepted"
		if err != nil {
			t.Fatalf("CLI stringToAmount(%q) rejected (%v); %q is the plain decimal numeral for %s", in, err, core, want)
		}
		if new(big.Int).SetUint64(got.UintValue()).Cmp(want) != 0 {
			t.Fatalf("CLI stringToAmount(%q) = %d want %s", in, got.UintValue(), want)
		}
	} else if err == nil {
		t.Fatalf("CLI stringToAmount(%q) = %d, want rejection: %q (after one unit suffix and blanks are stripped) is not an unsigned plain decimal numeral within precision/supply", in, got.UintValue(), core)
	}
	c15.Case(hkey("cli", in), suffix != "" || label != "integer", "cli:"+label, "cli-suffix:"+suffix, "cli:"+acc)
	c15.Sample("cli:"+label+":"+acc+":"+suffix, 1, in)
}

func TestC15Cli(t *testing.T) {
	t.Run("cli", rapid.MakeCheck(propC15Cli))
}
