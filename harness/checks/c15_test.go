package checks

import (
	"math/big"
	"strings"
	"testing"

	"massnet.org/mass-wallet/api"
	"massnet.org/mass-wallet/masswallet"
	"pgregory.net/rapid"
	"verifharness/ev"
	"verifharness/ref"
)

// ---- C15: amount strings and integer amounts convert exactly ---------------------------------

var c15 = ev.Open("C15", "exploration",
	"rapid-generated integers (0, 1, 10^k +-1, max, max+1, negatives, random in and beyond [0,max]) and strings from the grammar "+
		"digits[.digits] (leading/trailing zeros, empty halves) plus mutations inserting + - e E _ , space NUL non-ASCII second dot; "+
		"oracle = exact big-integer decimal reference (format shortest decimal; parse accept iff unsigned plain numeral, <= 8 significant "+
		"fraction digits, <= max supply). Non-trivial = integer with a non-zero fraction or at a power-of-ten / range boundary, or a "+
		"string that is mutated or has an empty half / redundant zeros (distinct by value/string).")

func genAmountInt(t *rapid.T) (int64, string) {
	max := ref.MaxAmount.Int64()
	switch rapid.IntRange(0, 7).Draw(t, "intKind") {
	case 0:
		return rapid.SampledFrom([]int64{0, 1, max, max - 1, max + 1, -1, 1 << 62, -(1 << 62), 99999999, 100000000, 100000001}).Draw(t, "special"), "special"
	case 1:
		k := rapid.IntRange(0, 18).Draw(t, "pow")
		p := int64(1)
		for i := 0; i < k; i++ {
			p *= 10
		}
		return p + int64(rapid.IntRange(-1, 1).Draw(t, "d")), "pow10"
	case 2:
		return rapid.Int64Range(0, 1000000000).Draw(t, "small"), "small"
	case 3:
		return rapid.Int64Range(max-1000, max+1000).Draw(t, "nearmax"), "near-max"
	case 4:
		return rapid.Int64Range(-1000, 1000).Draw(t, "nearzero"), "near-zero"
	case 5:
		// multiples of powers of ten (trailing-zero trimming)
		k := rapid.IntRange(1, 10).Draw(t, "tz")
		p := int64(1)
		for i := 0; i < k; i++ {
			p *= 10
		}
		return rapid.Int64Range(0, max/p).Draw(t, "m") * p, "trailing-zeros"
	case 6:
		return rapid.Int64Range(0, max).Draw(t, "inrange"), "in-range"
	}
	return rapid.Int64().Draw(t, "any"), "any"
}

func propC15Format(t *rapid.T) {
	v, label := genAmountInt(t)
	inRange := v >= 0 && v <= ref.MaxAmount.Int64()
	for name, f := range map[string]func(int64) (string, error){"api.AmountToString": api.AmountToString, "masswallet.AmountToString": masswallet.AmountToString} {
		s, err := f(v)
		if !inRange {
			if err == nil {
				t.Fatalf("%s(%d) = %q, want an error (outside [0, max supply])", name, v, s)
			}
			continue
		}
		want := ref.FormatAmount(big.NewInt(v))
		if err != nil || s != want {
			t.Fatalf("%s(%d) = %q,%v want %q", name, v, s, err, want)
		}
		back, err := api.StringToAmount(s)
		if err != nil || back.IntValue() != v {
			t.Fatalf("StringToAmount(%s(%d)=%q) = %v,%v", name, v, s, back, err)
		}
	}
	nt := inRange && (v%100000000 != 0 || label == "pow10" || label == "near-max" || label == "special") || !inRange
	c15.Case(hkey("f", v), nt, "format:"+label)
	c15.Sample("format:"+label, 1, v)
}

func genAmountString(t *rapid.T) (string, string) {
	digits := func(label string, min, max int) string {
		return rapid.StringMatching(`[0-9]{`+itoa(min)+`,`+itoa(max)+`}`).Draw(t, label)
	}
	var s, label string
	switch rapid.IntRange(0, 8).Draw(t, "strKind") {
	case 7:
		// integral parts whose product with 10^8 wraps around a 64-bit word (and around 2^63) back into a
		// small number: ceil(k*2^64 / 10^8) + d, and the same for 2^63 - far above the supply limit, so
		// every one of them must be refused
		word := new(big.Int).Lsh(big.NewInt(1), uint(rapid.SampledFrom([]int{63, 64}).Draw(t, "wordBits")))
		k := big.NewInt(int64(rapid.IntRange(1, 400).Draw(t, "wraps")))
		q := new(big.Int).Mul(k, word)
		q.Add(q, big.NewInt(99999999))
		q.Div(q, big.NewInt(100000000))
		q.Add(q, big.NewInt(int64(rapid.IntRange(0, 3).Draw(t, "wrapDelta"))))
		s, label = q.String(), "wraps-64-bit-product"
		if rapid.Bool().Draw(t, "wrapFrac") {
			s += "." + digits("frac", 1, 8)
		}
	case 8:
		// very long digit strings (beyond any machine word)
		s, label = digits("long", 11, 40), "long-integer"
		if rapid.Bool().Draw(t, "longFrac") {
			s += "." + digits("frac", 0, 8)
		}
	case 0:
		s, label = digits("int", 1, 10), "integer"
	case 1:
		s, label = digits("int", 0, 10)+"."+digits("frac", 0, 12), "decimal"
	case 2:
		s, label = strings.Repeat("0", rapid.IntRange(0, 5).Draw(t, "lz"))+digits("int", 1, 9)+"."+digits("frac", 0, 8)+strings.Repeat("0", rapid.IntRange(0, 6).Draw(t, "tz")), "padded-zeros"
	case 3:
		// around the supply limit
		q := new(big.Int).Add(big.NewInt(206438400), big.NewInt(int64(rapid.IntRange(-2, 2).Draw(t, "dq"))))
		s, label = q.String()+"."+digits("frac", 0, 9), "near-max"
	case 4:
		s, label = rapid.StringMatching(`[0-9.+\-eE_, ]{0,12}`).Draw(t, "soup"), "symbol-soup"
	case 5:
		s, label = rapid.String().Draw(t, "any"), "arbitrary"
	case 6:
		s, label = rapid.SampledFrom(c15Hostile).Draw(t, "hostile"), "hostile-constant"
	}
	if rapid.IntRange(0, 3).Draw(t, "mutate") == 0 && label != "arbitrary" {
		pos := rapid.IntRange(0, len(s)).Draw(t, "pos")
		ins := rapid.SampledFrom([]string{"+", "-", "e", "E", "_", ",", " ", "\x00", ".", "é", "\t", "１"}).Draw(t, "ins")
		s = s[:pos] + ins + s[pos:]
		label += "+mutated"
	}
	return s, label
}

func checkParseAgainstRef(fatalf func(string, ...interface{}), s string) string {
	want, class := ref.ParseAmount(s)
	got, err := api.StringToAmount(s)
	switch class {
	case ref.AmountValid:
		if err != nil {
			fatalf("StringToAmount(%q) rejected (%v); it is the plain decimal numeral for %s", s, err, want)
		}
		if new(big.Int).SetUint64(got.UintValue()).Cmp(want) != 0 {
			fatalf("StringToAmount(%q) = %d want %s", s, got.UintValue(), want)
		}
		return "accepted"
	default:
		if err == nil {
			fatalf("StringToAmount(%q) = %d, want rejection (not an unsigned plain decimal numeral within precision/supply)", s, got.UintValue())
		}
		return "rejected"
	}
}

func propC15Parse(t *rapid.T) {
	s, label := genAmountString(t)
	acc := checkParseAgainstRef(t.Fatalf, s)
	nt := label != "integer"
	c15.Case(hkey("p", s), nt, "parse:"+label, "parse:"+label+":"+acc)
	c15.Sample("parse:"+label+":"+acc, 1, s)
}

var c15Hostile = []string{"", ".", "0", "0.", ".0", "+5", "-0", "+0", "1.+5", "1.-5", "1.-0", "+.5", "-.5", "1e3", "1E3", "1_000", "1,5", " 1", "1 ", "0x10", "١", "1..", "..1", "1.2.3", "00", "0.00000000", "0.000000001", "0.100000000", "206438400", "206438400.00000001", "206438401", "99999999999999999999", "9223372036854775807", "9223372036854775808", "+", "-", "0-5", "0+5", "1.0+5", "1.5-", "\x001", "1\x00", "NaN", "Inf"}

func TestC15(t *testing.T) {
	t.Run("regress", func(t *testing.T) {
		// shrunk failures of earlier runs and hostile constants, as plain checks that bypass the library
		for _, s := range c15Hostile {
			acc := checkParseAgainstRef(t.Fatalf, s)
			c15.Case(hkey("p", s), true, "parse:regress:"+acc)
		}
	})
	t.Run("format", rapid.MakeCheck(propC15Format))
	t.Run("parse", rapid.MakeCheck(propC15Parse))
}

func FuzzC15(f *testing.F) {
	for _, s := range []string{"", ".", "0", "1.5", "+5", "1.+5", "-0", "1e3", "206438400.00000000", "0.000000001", "1_0", " 1"} {
		f.Add(s)
	}
	f.Fuzz(func(t *testing.T, s string) {
		checkParseAgainstRef(t.Fatalf, s)
	})
}
