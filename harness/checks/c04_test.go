//go:build verif

package checks

import (
	"bytes"
	"crypto/sha256"
	"encoding/hex"
	"fmt"
	"math"
	"os"
	"path/filepath"
	"regexp"
	"sort"
	"strings"
	"testing"

	"github.com/btcsuite/btcd/btcec"
	"github.com/massnetorg/mass-core/massutil"
	"github.com/syndtr/goleveldb/leveldb"
	"github.com/syndtr/goleveldb/leveldb/opt"
	"massnet.org/mass-wallet/masswallet"
	mwdb "massnet.org/mass-wallet/masswallet/db"
	"massnet.org/mass-wallet/masswallet/keystore"
	"pgregory.net/rapid"
	"verifharness/ev"
	"verifharness/ref"
	"verifharness/sim"
	"verifharness/xdb"
)

// ---- C04: wallet id and addresses are a function of the mnemonic; keys match addresses --------
// ---- C05: secrets are never stored or returned in clear; only the right passphrase unlocks ----

var c04 = ev.Open("C04", "exploration",
	"rapid state machine over up to 3 fresh wallet instances (own database directories, one simulated node): create (random entropy of a "+
		"generated size), import-mnemonic (generated entropy of the five sizes, biased to leading-zero bytes; index hints), new address x n "+
		"(standard/staking), export, import-keystore elsewhere, restart, public-passphrase change, sign-hash for issued addresses. Oracle: "+
		"(1) wallet id and the address at every index equal the harness's own BIP-39 -> BIP-32 m/44'/coin'/1'/0/i derivation (and hence "+
		"each other across instances); (2) SignHash for every issued address, asked right after issuing (key derived from public "+
		"material) and after restart, verifies under exactly the public key that address commits to. Non-trivial = case with >=2 instances "+
		"holding the same wallet and >=3 addresses compared (distinct by op trace).")

var c05 = ev.Open("C05", "exploration",
	"same state machine with secret-needing operations (sign-hash, export, reveal mnemonic, remove wallet) under right and wrong "+
		"passphrases (edit distance 1, prefix, case, other wallet's, public passphrase, empty, over-long, arbitrary bytes), interleaved "+
		"with restarts, public-passphrase changes and re-imports. Oracle: every secret the harness knows from its own derivation (mnemonic "+
		"sentence and every 4-word window, entropy, seed, master/purpose/coin/account/branch xprv strings and scalars, address private "+
		"scalars, both passphrases; raw, hex and base58) is searched in every key/value ever written through the interposed database, in "+
		"the final LevelDB contents, in export JSON and in every error text; wrong passphrase => passphrase error and zero commits, right "+
		"one => success, also after a refused attempt / restart / pub-pass change. Non-trivial = case with >=1 refused and >=1 accepted "+
		"secret-needing call and >=1 restart (distinct by op trace).")

type kinst struct {
	env *sim.Env
	ctl *xdb.Ctl
	// wallets present in this instance: id -> issued address count
	has map[string]bool
}

type kwallet struct {
	keys     *sim.WalletKeys
	id       string
	created  bool        // created by CreateWallet (random entropy)
	issuedIn map[int]int // instance -> number of external addresses there
	classes  map[int][]uint16
}

type kworld struct {
	node                        *sim.Node
	inst                        []*kinst
	wallets                     []*kwallet
	trace                       []string
	errs                        []string
	exports                     []string
	refused, accepted, restarts int
	maxCompared                 int
	pubPass                     string
	oddRemarks                  int
	oddPass                     int // imported wallets whose passphrase lies outside the create-time rule
}

func (k *kworld) logf(f string, a ...interface{}) { k.trace = append(k.trace, fmt.Sprintf(f, a...)) }

func (k *kworld) newInstance(t *rapid.T) *kinst {
	ctl := xdb.NewCtl()
	ctl.Record = true
	sim.DefaultPubPass = k.pubPass
	env, err := sim.NewEnv(k.node, 20, func(d mwdb.DB) mwdb.DB { return xdb.Wrap(d, ctl) })
	sim.DefaultPubPass = "verifPubPass1"
	if err != nil {
		t.Fatalf("HARNESS: env: %v", err)
	}
	if err := env.StartStepped(); err != nil {
		t.Fatalf("HARNESS: %v", err)
	}
	in := &kinst{env: env, ctl: ctl, has: map[string]bool{}}
	k.inst = append(k.inst, in)
	return in
}

func (k *kworld) finish(t *rapid.T, in *kinst) {
	w := &World{node: k.node, env: in.env, flags: map[string]bool{}, tipAnnounced: true}
	w.finishTasks(t)
}

// checkWallet compares id/addresses of wallet kw in instance ii with the harness derivation and
// checks that the signing key matches every address.
func (k *kworld) checkWallet(t *rapid.T, ii int, kw *kwallet, sign bool) {
	in := k.inst[ii]
	info, err := in.env.W.UseWallet(kw.id)
	if err != nil {
		t.Fatalf("instance %d: UseWallet(%s): %v", ii, kw.id, err)
	}
	if info.WalletID != kw.keys.ID {
		t.Fatalf("instance %d: wallet id %s, derivation from the mnemonic gives %s", ii, info.WalletID, kw.keys.ID)
	}
	n := int(info.ExternalKeyCount)
	kw.issuedIn[ii] = n
	list, err := in.env.W.GetAddresses(math.MaxUint16)
	if err != nil {
		t.Fatalf("GetAddresses: %v", err)
	}
	listed := map[string]bool{}
	for _, a := range list {
		listed[a.Address] = true
	}
	am, err := in.env.W.VerifKeystore().GetAddrManagerByAccountID(kw.id)
	if err != nil {
		t.Fatalf("keystore lookup: %v", err)
	}
	known := map[string]bool{}
	for _, a := range am.ListAddresses() {
		known[a] = true
	}
	ni := int(info.InternalKeyCount)
	if len(known) != n+ni {
		t.Fatalf("instance %d: keystore holds %d addresses, counters say %d external + %d internal", ii, len(known), n, ni)
	}
	for i := 0; i < ni; i++ {
		a := kw.keys.AddrInternal(uint32(i))
		if !known[a.Std] {
			t.Fatalf("instance %d wallet %s: internal address at index %d should be %s (m/44'/coin'/1'/1/%d) but the wallet does not hold it; it holds %v", ii, kw.id[:10], i, a.Std, i, sortedSet(known))
		}
		if sign {
			pub, _ := btcec.ParsePubKey(a.Pub[:], btcec.S256())
			h := sha256.Sum256([]byte(fmt.Sprintf("verif-internal-%d-%d", ii, i)))
			sig, err := in.env.W.VerifKeystore().SignHash(pub, h[:], []byte(kw.keys.Pass))
			if err != nil {
				t.Fatalf("instance %d wallet %s: SignHash for internal address #%d with the right passphrase: %v", ii, kw.id[:10], i, err)
			}
			if !sig.Verify(h[:], pub) {
				t.Fatalf("instance %d wallet %s: signature for internal address #%d does not verify under the public key the address commits to", ii, kw.id[:10], i)
			}
		}
	}
	for i := 0; i < n; i++ {
		a := kw.keys.Addr(uint32(i))
		if !known[a.Std] {
			t.Fatalf("instance %d wallet %s: address at index %d should be %s (m/44'/coin'/1'/0/%d) but the wallet does not hold it; it holds %v", ii, kw.id[:10], i, a.Std, i, sortedSet(known))
		}
		if !listed[a.Std] && !listed[a.Staking] {
			t.Fatalf("instance %d wallet %s: address #%d (%s) not listed", ii, kw.id[:10], i, a.Std)
		}
		if sign {
			pub, _ := btcec.ParsePubKey(a.Pub[:], btcec.S256())
			h := sha256.Sum256([]byte(fmt.Sprintf("verif-%d-%d", ii, i)))
			sig, err := in.env.W.VerifKeystore().SignHash(pub, h[:], []byte(kw.keys.Pass))
			if err != nil {
				t.Fatalf("instance %d wallet %s: SignHash for address #%d with the right passphrase: %v", ii, kw.id[:10], i, err)
			}
			if !sig.Verify(h[:], pub) {
				t.Fatalf("instance %d wallet %s: signature for address #%d does not verify under the public key the address commits to", ii, kw.id[:10], i)
			}
		}
	}
	if sign {
		in.env.W.VerifKeystore().ClearPrivKey()
	}
	if n > k.maxCompared {
		k.maxCompared = n
	}
}

func sortedSet(m map[string]bool) []string {
	var s []string
	for k := range m {
		s = append(s, k)
	}
	sort.Strings(s)
	return s
}

// secretsOf lists byte patterns that must never appear in clear.
func secretsOf(kw *kwallet, nAddr int, pubPass string) map[string][]byte {
	s := map[string][]byte{}
	add := func(name string, raw []byte) {
		if len(raw) < 6 {
			return
		}
		s[name] = raw
		s[name+"(hex)"] = []byte(hex.EncodeToString(raw))
		s[name+"(HEX)"] = []byte(strings.ToUpper(hex.EncodeToString(raw)))
		s[name+"(b58)"] = []byte(ref.Base58(raw))
		s[name+"(dec)"] = []byte(decList(raw))
	}
	words := strings.Fields(kw.keys.Mnemonic)
	s["mnemonic"] = []byte(kw.keys.Mnemonic)
	for i := 0; i+4 <= len(words); i++ {
		s[fmt.Sprintf("mnemonic-words-%d..%d", i, i+3)] = []byte(strings.Join(words[i:i+4], " "))
	}
	add("entropy", kw.keys.Entropy)
	add("seed", kw.keys.Seed)
	for name, x := range map[string]*ref.XKey{"master": kw.keys.Master, "purpose": kw.keys.Purpose, "coin": kw.keys.Coin, "account": kw.keys.Account, "external": kw.keys.External, "internal": kw.keys.Internal} {
		s["xprv-"+name] = []byte(x.String())
		add("scalar-"+name, x.K[:])
	}
	for i := 0; i < nAddr; i++ {
		a := kw.keys.Addr(uint32(i))
		add(fmt.Sprintf("address-key-%d", i), a.Priv[:])
	}
	s["private-passphrase"] = []byte(kw.keys.Pass)
	s["private-passphrase(dec)"] = []byte(decList([]byte(kw.keys.Pass)))
	s["private-passphrase(hex)"] = []byte(hex.EncodeToString([]byte(kw.keys.Pass)))
	s["public-passphrase"] = []byte(pubPass)
	return s
}

// decList renders bytes the way fmt prints a byte slice inside %v ("112 119 48").
func decList(b []byte) string {
	parts := make([]string, len(b))
	for i, x := range b {
		parts[i] = fmt.Sprint(x)
	}
	return strings.Join(parts, " ")
}

// genRemark draws the free-text remark of a wallet: mostly plain, sometimes with line breaks, tabs,
// NUL, invalid UTF-8, non-ASCII or long text. The wallet may refuse a remark (the caller then scans the
// refusal for secrets and moves on); it may not echo secrets.
func genRemark(t *rapid.T) (string, bool) {
	if rapid.IntRange(0, 3).Draw(t, "oddRemark") > 0 {
		return "m", false
	}
	return rapid.SampledFrom([]string{"", "line\nbreak", "tab\there", "nul\x00inside", "\xff\xfe not utf-8", "r\u00e9sum\u00e9 \u94b1\u5305", strings.Repeat("long remark ", 30), "\r\n", "{\"json\":true}", "%s%v%+v"}).Draw(t, "remark"), true
}

func scanFor(t *rapid.T, where string, hay []byte, secrets map[string][]byte) {
	for name, pat := range secrets {
		if bytes.Contains(hay, pat) {
			t.Fatalf("secret %q appears in clear in %s", name, where)
		}
	}
}

// scanEverything searches all recorded writes, the final database contents and all outputs.
func (k *kworld) scanEverything(t *rapid.T) int {
	scanned := 0
	var all map[string][]byte = map[string][]byte{}
	for _, kw := range k.wallets {
		n := 0
		for _, c := range kw.issuedIn {
			if c > n {
				n = c
			}
		}
		for name, p := range secretsOf(kw, n+2, k.pubPass) {
			all[kw.id[:8]+":"+name] = p
		}
	}
	for ii, in := range k.inst {
		for j := range in.ctl.Values {
			scanFor(t, fmt.Sprintf("instance %d: value written to the wallet database (key %x...)", ii, trunc(in.ctl.Keys[j], 12)), in.ctl.Values[j], all)
			scanFor(t, fmt.Sprintf("instance %d: key written to the wallet database", ii), in.ctl.Keys[j], all)
			scanned++
		}
	}
	for _, e := range k.exports {
		scanFor(t, "exported keystore JSON", []byte(e), all)
		scanned++
	}
	for _, e := range k.errs {
		scanFor(t, "error text returned to the caller ("+e+")", []byte(e), all)
		scanned++
	}
	return scanned
}

func trunc(b []byte, n int) []byte {
	if len(b) > n {
		return b[:n]
	}
	return b
}

// scanClosedDB iterates the closed LevelDB directory directly (decompressed entries) and its raw files.
func scanClosedDB(t *rapid.T, dir string, secrets map[string][]byte) int {
	n := 0
	db, err := leveldb.OpenFile(dir, &opt.Options{ErrorIfMissing: true, ReadOnly: true})
	if err != nil {
		t.Fatalf("HARNESS: open closed db: %v", err)
	}
	it := db.NewIterator(nil, nil)
	for it.Next() {
		scanFor(t, fmt.Sprintf("final database entry (key %q...)", trunc(it.Key(), 16)), it.Value(), secrets)
		scanFor(t, "final database key", it.Key(), secrets)
		n++
	}
	it.Release()
	db.Close()
	files, _ := filepath.Glob(filepath.Join(dir, "*"))
	for _, f := range files {
		if b, err := os.ReadFile(f); err == nil {
			scanFor(t, "raw database file "+filepath.Base(f), b, secrets)
		}
	}
	return n
}

func propC0405(t *rapid.T) {
	useProfile(profSmall)
	node, err := sim.NewNode()
	if err != nil {
		t.Fatalf("HARNESS: %v", err)
	}
	defer node.Close()
	k := &kworld{node: node, pubPass: "verifPubPass1"}
	defer func() {
		for _, in := range k.inst {
			in.env.Close()
		}
	}()
	k.newInstance(t)
	wrongsFor := func(kw *kwallet) []string {
		p := kw.keys.Pass
		ws := []string{p + "x", p[:len(p)-1], strings.ToUpper(p), strings.ToLower(p), "", strings.Repeat("p", 41), "\x00\xff\xfe", " " + p, k.pubPass, "123456"}
		for _, o := range k.wallets {
			if o != kw && o.keys.Pass != p {
				ws = append(ws, o.keys.Pass)
			}
		}
		var out []string
		for _, w := range ws {
			if w != p {
				out = append(out, w)
			}
		}
		return out
	}
	isPassErr := func(err error) bool {
		return err == keystore.ErrInvalidPassphrase || err == keystore.ErrIllegalPassphrase
	}
	pickWallet := func(t *rapid.T) (*kwallet, int) {
		if len(k.wallets) == 0 {
			t.Skip("no wallet yet")
		}
		kw := k.wallets[rapid.IntRange(0, len(k.wallets)-1).Draw(t, "wallet")]
		var where []int
		for ii, in := range k.inst {
			if in.has[kw.id] {
				where = append(where, ii)
			}
		}
		if len(where) == 0 {
			t.Skip("wallet nowhere")
		}
		return kw, where[rapid.IntRange(0, len(where)-1).Draw(t, "inInstance")]
	}
	t.Repeat(map[string]func(*rapid.T){
		"newInstance": func(t *rapid.T) {
			if len(k.inst) >= 3 {
				t.Skip("3 instances")
			}
			k.newInstance(t)
			k.logf("new instance %d", len(k.inst)-1)
		},
		"importMnemonic": func(t *rapid.T) {
			ii := rapid.IntRange(0, len(k.inst)-1).Draw(t, "instance")
			in := k.inst[ii]
			var kw *kwallet
			if len(k.wallets) > 0 && rapid.Bool().Draw(t, "existingWallet") {
				kw = k.wallets[rapid.IntRange(0, len(k.wallets)-1).Draw(t, "wallet")]
			}
			if kw == nil {
				if len(k.wallets) >= 3 {
					t.Skip("3 wallets")
				}
				size := []int{16, 20, 24, 28, 32}[rapid.IntRange(0, 4).Draw(t, "entSize")]
				ent := rapid.SliceOfN(rapid.Byte(), size, size).Draw(t, "entropy")
				if rapid.Bool().Draw(t, "leadingZeros") {
					for i := 0; i < rapid.IntRange(1, 3).Draw(t, "nz"); i++ {
						ent[i] = 0
					}
				}
				// a wallet that enters by its mnemonic brings its passphrase along: the charset / length rule
				// of CreateWallet does not apply to it (imports accept any passphrase), so a third of these
				// passphrases lie outside that rule
				pass := fmt.Sprintf("pw%dX%s", len(k.wallets), rapid.OneOf(rapid.StringMatching(`[a-zA-Z0-9@#$%^&]{4,20}`), rapid.StringMatching(`[a-zA-Z0-9@#$%^&]{21,36}`), rapid.StringMatching(`[a-zA-Z0-9 !_.,:;*()+=/-]{1,3}[ !_.,:;*()+=/-][a-zA-Z0-9 !_.,:;*()+=/-]{0,40}`)).Draw(t, "pass"))
				if !regexp.MustCompile(`^[0-9a-zA-Z@#$%^&]{6,40}$`).MatchString(pass) {
					k.oddPass++
				}
				keys, _ := sim.EntropyFor(ent, pass)
				if keys == nil {
					t.Skip("no usable entropy")
				}
				for _, o := range k.wallets {
					if o.id == keys.ID {
						t.Skip("duplicate seed")
					}
				}
				kw = &kwallet{keys: keys, id: keys.ID, issuedIn: map[int]int{}, classes: map[int][]uint16{}}
				k.wallets = append(k.wallets, kw)
			}
			if in.has[kw.id] {
				t.Skip("already there")
			}
			hint := uint32(0)
			for _, c := range kw.issuedIn {
				if uint32(c) > hint {
					hint = uint32(c)
				}
			}
			if hint > 0 {
				hint = uint32(rapid.IntRange(0, int(hint)).Draw(t, "hint"))
			}
			ihint := uint32(0)
			if rapid.IntRange(0, 2).Draw(t, "withInternalHint") == 0 {
				ihint = uint32(rapid.IntRange(1, 3).Draw(t, "internalHint"))
			}
			remark, odd := genRemark(t)
			ws, err := in.env.W.ImportWalletWithMnemonic(&keystore.WalletParams{Mnemonic: kw.keys.Mnemonic, PrivatePassphrase: []byte(kw.keys.Pass), Remarks: remark, ExternalIndex: hint, InternalIndex: ihint, AddressGapLimit: 20})
			if err != nil && odd {
				// an unusual remark may be refused; the refusal must not carry secrets
				k.errs = append(k.errs, err.Error())
				k.logf("import mnemonic wallet %s with remark %q refused: %s", kw.id[:10], remark, trimTo(err.Error(), 60))
				k.oddRemarks++
				return
			}
			if err != nil {
				t.Fatalf("ImportWalletWithMnemonic: %v", err)
			}
			if odd {
				k.oddRemarks++
			}
			if ws.WalletID != kw.keys.ID {
				t.Fatalf("mnemonic import gives wallet id %s, derivation gives %s (mnemonic %q)", ws.WalletID, kw.keys.ID, kw.keys.Mnemonic)
			}
			in.has[kw.id] = true
			k.finish(t, in)
			k.logf("import mnemonic wallet %s into instance %d hint %d internal hint %d", kw.id[:10], ii, hint, ihint)
			k.checkWallet(t, ii, kw, true)
		},
		"create": func(t *rapid.T) {
			if len(k.wallets) >= 3 {
				t.Skip("3 wallets")
			}
			ii := rapid.IntRange(0, len(k.inst)-1).Draw(t, "instance")
			bits := []int{128, 160, 192, 224, 256}[rapid.IntRange(0, 4).Draw(t, "bits")]
			pass := fmt.Sprintf("pw%dX%s", len(k.wallets), rapid.OneOf(rapid.StringMatching(`[a-zA-Z0-9@#$%^&]{4,20}`), rapid.StringMatching(`[a-zA-Z0-9@#$%^&]{21,36}`)).Draw(t, "pass"))
			remark, odd := genRemark(t)
			if !odd {
				remark = "c"
			}
			id, mnemonic, _, err := k.inst[ii].env.W.CreateWallet(pass, remark, bits)
			if err != nil && odd {
				scanFor(t, "error text returned by CreateWallet ("+err.Error()+")", []byte(err.Error()), map[string][]byte{
					"private-passphrase": []byte(pass), "private-passphrase(dec)": []byte(decList([]byte(pass))), "private-passphrase(hex)": []byte(hex.EncodeToString([]byte(pass)))})
				k.logf("create wallet with remark %q refused: %s", remark, trimTo(err.Error(), 60))
				k.oddRemarks++
				return
			}
			if err != nil {
				t.Fatalf("CreateWallet: %v", err)
			}
			if odd {
				k.oddRemarks++
			}
			entropy, rerr := ref.Bip39Decode(strings.Fields(mnemonic))
			if rerr != nil || len(entropy)*8 != bits {
				t.Fatalf("CreateWallet returned mnemonic %q: not a valid %d-bit BIP-39 mnemonic (%v)", mnemonic, bits, rerr)
			}
			keys, ok := sim.DeriveWallet(entropy, pass)
			if !ok {
				// derivation crosses the recorded BIP-32 deviation: nothing can be compared for this wallet
				c04.Excluded(1)
				k.logf("create wallet on instance %d: excluded (short-scalar path)", ii)
				if err := k.inst[ii].env.W.RemoveWallet(id, pass); err == nil {
					k.finish(t, k.inst[ii])
				}
				return
			}
			if id != keys.ID {
				t.Fatalf("CreateWallet id %s, derivation from its own mnemonic gives %s", id, keys.ID)
			}
			kw := &kwallet{keys: keys, id: id, created: true, issuedIn: map[int]int{}, classes: map[int][]uint16{}}
			k.wallets = append(k.wallets, kw)
			k.inst[ii].has[id] = true
			k.logf("create wallet %s on instance %d (%d bits)", id[:10], ii, bits)
			k.checkWallet(t, ii, kw, false)
		},
		"newAddress": func(t *rapid.T) {
			kw, ii := pickWallet(t)
			in := k.inst[ii]
			if _, err := in.env.W.UseWallet(kw.id); err != nil {
				t.Fatalf("UseWallet: %v", err)
			}
			n := rapid.IntRange(1, 3).Draw(t, "count")
			for j := 0; j < n; j++ {
				if kw.issuedIn[ii] >= 18 {
					break
				}
				class := uint16(massutil.AddressClassWitnessV0)
				if rapid.Bool().Draw(t, "staking") {
					class = massutil.AddressClassWitnessStaking
				}
				addr, err := in.env.W.NewAddress(class)
				if err != nil {
					t.Fatalf("NewAddress: %v", err)
				}
				idx := uint32(kw.issuedIn[ii])
				a := kw.keys.Addr(idx)
				want := a.Std
				if class == massutil.AddressClassWitnessStaking {
					want = a.Staking
				}
				if addr != want {
					t.Fatalf("instance %d wallet %s: NewAddress #%d = %s, derivation gives %s", ii, kw.id[:10], idx, addr, want)
				}
				kw.issuedIn[ii]++
				// the key behind an address issued from public material must sign for it
				pub, _ := btcec.ParsePubKey(a.Pub[:], btcec.S256())
				h := sha256.Sum256([]byte(addr))
				sig, err := in.env.W.VerifKeystore().SignHash(pub, h[:], []byte(kw.keys.Pass))
				if err != nil || !sig.Verify(h[:], pub) {
					t.Fatalf("instance %d: signing for freshly issued address #%d: err=%v", ii, idx, err)
				}
				in.env.W.VerifKeystore().ClearPrivKey()
			}
			k.logf("new addresses wallet %s instance %d -> %d", kw.id[:10], ii, kw.issuedIn[ii])
		},
		"exportImport": func(t *rapid.T) {
			kw, ii := pickWallet(t)
			js, err := k.inst[ii].env.W.ExportWallet(kw.id, kw.keys.Pass)
			if err != nil {
				t.Fatalf("ExportWallet with the right passphrase: %v", err)
			}
			k.accepted++
			k.exports = append(k.exports, js)
			var dest []int
			for jj, in := range k.inst {
				if !in.has[kw.id] {
					dest = append(dest, jj)
				}
			}
			if len(dest) == 0 {
				return
			}
			jj := dest[rapid.IntRange(0, len(dest)-1).Draw(t, "dest")]
			if _, err := k.inst[jj].env.W.ImportWallet(js, "wrongPass99"); err == nil {
				t.Fatalf("ImportWallet accepted a wrong passphrase")
			} else {
				k.errs = append(k.errs, err.Error())
			}
			ws, err := k.inst[jj].env.W.ImportWallet(js, kw.keys.Pass)
			if err != nil {
				t.Fatalf("ImportWallet(exported keystore, right passphrase): %v", err)
			}
			if ws.WalletID != kw.id {
				t.Fatalf("imported keystore has id %s, original %s", ws.WalletID, kw.id)
			}
			k.inst[jj].has[kw.id] = true
			k.finish(t, k.inst[jj])
			k.logf("export wallet %s from %d, import into %d", kw.id[:10], ii, jj)
			k.checkWallet(t, jj, kw, true)
			if kw.issuedIn[jj] != kw.issuedIn[ii] && !(kw.issuedIn[ii] == 0 && kw.issuedIn[jj] == 1) {
				t.Fatalf("exported keystore carried %d addresses, the import holds %d", kw.issuedIn[ii], kw.issuedIn[jj])
			}
		},
		"restart": func(t *rapid.T) {
			ii := rapid.IntRange(0, len(k.inst)-1).Draw(t, "instance")
			in := k.inst[ii]
			in.env.PubPass = k.pubPass
			if err := in.env.Restart(); err != nil {
				t.Fatalf("restart instance %d: %v\n  %s", ii, err, strings.Join(k.trace, "\n  "))
			}
			if err := in.env.StartStepped(); err != nil {
				t.Fatalf("HARNESS: %v", err)
			}
			k.restarts++
			k.logf("restart instance %d", ii)
			for _, kw := range k.wallets {
				if in.has[kw.id] {
					k.checkWallet(t, ii, kw, true)
				}
			}
		},
		"secretOp": func(t *rapid.T) {
			kw, ii := pickWallet(t)
			in := k.inst[ii]
			right := rapid.Bool().Draw(t, "rightPass")
			pass := kw.keys.Pass
			if !right {
				pass = rapid.SampledFrom(wrongsFor(kw)).Draw(t, "wrongPass")
			}
			op := rapid.SampledFrom([]string{"sign", "export", "mnemonic", "remove"}).Draw(t, "secretOp")
			if op == "remove" && (right && rapid.IntRange(0, 2).Draw(t, "reallyRemove") > 0) {
				op = "export"
			}
			before := in.ctl.Commits()
			var err error
			switch op {
			case "sign":
				if kw.issuedIn[ii] == 0 {
					t.Skip("no address")
				}
				a := kw.keys.Addr(uint32(rapid.IntRange(0, kw.issuedIn[ii]-1).Draw(t, "signIdx")))
				pub, _ := btcec.ParsePubKey(a.Pub[:], btcec.S256())
				h := sha256.Sum256([]byte("secretop"))
				var sig *btcec.Signature
				sig, err = in.env.W.VerifKeystore().SignHash(pub, h[:], []byte(pass))
				if err == nil && !sig.Verify(h[:], pub) {
					t.Fatalf("signature does not verify")
				}
				// a wrong attempt while the keys are still unlocked must be refused as well
				if err == nil && rapid.Bool().Draw(t, "wrongWhileUnlocked") {
					w2 := rapid.SampledFrom(wrongsFor(kw)).Draw(t, "wrongPass2")
					if _, err2 := in.env.W.VerifKeystore().SignHash(pub, h[:], []byte(w2)); err2 == nil {
						t.Fatalf("SignHash accepted wrong passphrase %q right after a successful unlock", w2)
					} else {
						k.errs = append(k.errs, err2.Error())
						k.refused++
					}
				}
				in.env.W.VerifKeystore().ClearPrivKey()
			case "export":
				var js string
				js, err = in.env.W.ExportWallet(kw.id, pass)
				if err == nil {
					k.exports = append(k.exports, js)
				}
			case "mnemonic":
				var m string
				m, _, err = in.env.W.GetMnemonic(kw.id, pass)
				if err == nil && m != kw.keys.Mnemonic {
					t.Fatalf("GetMnemonic returned %q, wallet was made from %q", m, kw.keys.Mnemonic)
				}
			case "remove":
				err = in.env.W.RemoveWallet(kw.id, pass)
				if err == nil {
					k.finish(t, in)
					delete(in.has, kw.id)
					delete(kw.issuedIn, ii)
					if _, uerr := in.env.W.UseWallet(kw.id); uerr == nil {
						t.Fatalf("removed wallet can still be selected")
					}
				}
			}
			k.logf("%s wallet %s instance %d right=%v -> %v", op, kw.id[:10], ii, right, err)
			if right {
				if err != nil {
					t.Fatalf("%s with the right passphrase failed: %v\n  %s", op, err, strings.Join(k.trace, "\n  "))
				}
				k.accepted++
				return
			}
			if err == nil {
				t.Fatalf("%s accepted wrong passphrase %q (right one %q)", op, pass, kw.keys.Pass)
			}
			if !isPassErr(err) && err != masswallet.ErrTooManyTask {
				t.Fatalf("%s with wrong passphrase %q refused with %v, want a passphrase error", op, pass, err)
			}
			if in.ctl.Commits() != before {
				t.Fatalf("%s refused (wrong passphrase) but %d database commits happened", op, in.ctl.Commits()-before)
			}
			k.errs = append(k.errs, err.Error())
			k.refused++
		},
		"pubPassChange": func(t *rapid.T) {
			if rapid.IntRange(0, 3).Draw(t, "rare") > 0 {
				t.Skip("rare")
			}
			newPass := fmt.Sprintf("pub%dX%s", len(k.trace), rapid.StringMatching(`[a-zA-Z0-9]{4,10}`).Draw(t, "newPub"))
			for ii, in := range k.inst {
				err := mwdb.Update(in.env.DB, func(tx mwdb.DBTransaction) error {
					return in.env.W.VerifKeystore().ChangePubPassphrase(tx, []byte(k.pubPass), []byte(newPass), &keystore.DefaultScryptOptions)
				})
				if err != nil {
					t.Fatalf("ChangePubPassphrase on instance %d: %v", ii, err)
				}
				in.env.PubPass = newPass
			}
			k.pubPass = newPass
			k.logf("public passphrase changed")
			if !rapid.Bool().Draw(t, "restartAfterChange") {
				// the session goes on with the new public passphrase: wallets created or imported
				// from here on are protected by it and must open after a later restart
				return
			}
			for ii, in := range k.inst {
				if err := in.env.Restart(); err != nil {
					t.Fatalf("reopen with the new public passphrase (instance %d): %v", ii, err)
				}
				if err := in.env.StartStepped(); err != nil {
					t.Fatalf("HARNESS: %v", err)
				}
				k.restarts++
				for _, kw := range k.wallets {
					if in.has[kw.id] {
						k.checkWallet(t, ii, kw, true)
					}
				}
			}
		},
		"": func(t *rapid.T) {},
	})
	// final cross-instance comparison and scans
	shared := 0
	for _, kw := range k.wallets {
		cnt := 0
		for ii, in := range k.inst {
			if in.has[kw.id] {
				k.checkWallet(t, ii, kw, true)
				cnt++
			}
		}
		if cnt >= 2 {
			shared++
		}
	}
	scanned := k.scanEverything(t)
	all := map[string][]byte{}
	for _, kw := range k.wallets {
		n := 0
		for _, c := range kw.issuedIn {
			if c > n {
				n = c
			}
		}
		for name, p := range secretsOf(kw, n+2, k.pubPass) {
			all[kw.id[:8]+":"+name] = p
		}
	}
	for _, in := range k.inst {
		if err := in.env.StopWallet(); err != nil {
			t.Fatalf("stop: %v", err)
		}
		scanned += scanClosedDB(t, in.env.DBPath, all)
	}
	key := hkey(strings.Join(k.trace, "\n"))
	c04.Case(key, shared >= 1 && k.maxCompared >= 3, fmt.Sprintf("instances:%d", len(k.inst)), fmt.Sprintf("wallets:%d", len(k.wallets)))
	c05.Case(key, k.refused >= 1 && k.accepted >= 1 && k.restarts >= 1, fmt.Sprintf("refused>=1:%v", k.refused >= 1), fmt.Sprintf("restarts>=1:%v", k.restarts >= 1), fmt.Sprintf("unusual-remark:%v", k.oddRemarks >= 1), fmt.Sprintf("import-passphrase-outside-create-rule:%v", k.oddPass >= 1))
	c05.Label("byte-strings-scanned", scanned)
	c05.Label("secret-patterns", len(all))
	if shared >= 1 && k.maxCompared >= 3 {
		c04.Sample("shared-wallet", 2, k.trace)
	}
	if k.refused >= 1 && k.accepted >= 1 && k.restarts >= 1 {
		c05.Sample("refused+accepted+restart", 2, k.trace)
	}
}

func TestC04(t *testing.T) { t.Run("keystore", rapid.MakeCheck(propC0405)) }
func TestC05(t *testing.T) { t.Run("keystore", rapid.MakeCheck(propC0405)) }
