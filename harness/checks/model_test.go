//go:build verif

package checks

import (
	"encoding/binary"
	"fmt"
	"sort"

	"github.com/massnetorg/mass-core/consensus"
	"github.com/massnetorg/mass-core/massutil"
	"github.com/massnetorg/mass-core/wire"
	"massnet.org/mass-wallet/masswallet/keystore"
)

// ---- consensus profile ------------------------------------------------------------------------

// The consensus parameters that bound histories are package variables of mass-core which the
// wallet reads through the same symbols; the "small" profile scales them down so that maturity
// boundaries and the binding fork fall inside 10-60 block histories.
type profile struct {
	Name             string
	CoinbaseMaturity uint64
	MinFrozenPeriod  uint64
	MinStakingValue  uint64
	WarmUpHeight     uint64
	BindingLock      uint64
	RewardStart      uint64 // consensus.StakingTxRewardStart: kept below MinFrozenPeriod as in the real parameters (24 < 61440)
}

var (
	profSmall   = profile{"small", 4, 2, 1000000, 14, 5, 1}
	profDefault = profile{"default", 1000, 61440, 2048 * 100000000, 1398801, 0xfffffffe, 24}
	curProfile  profile
)

func useProfile(p profile) {
	consensus.CoinbaseMaturity = p.CoinbaseMaturity
	consensus.MinFrozenPeriod = p.MinFrozenPeriod
	consensus.MinStakingValue = p.MinStakingValue
	consensus.MASSIP0002WarmUpHeight = p.WarmUpHeight
	consensus.MASSIP0002BindingLockedPeriod = p.BindingLock
	consensus.StakingTxRewardStart = p.RewardStart
	keystore.DefaultScryptOptions = keystore.ScryptOptions{N: 16, R: 8, P: 1}
	curProfile = p
}

// ---- independent ledger model -----------------------------------------------------------------

type coinClass int

const (
	clsStd coinClass = iota
	clsStaking
	clsBindingOld
	clsBindingNew
	clsOther // nulldata / anything no wallet can own
)

func (c coinClass) String() string {
	return [...]string{"std", "staking", "binding-old", "binding-new", "other"}[c]
}

// Coin is one transaction output on some chain.
type Coin struct {
	Op       wire.OutPoint
	Value    int64
	Script   []byte
	Height   uint64
	Coinbase bool
	Class    coinClass
	Hash     [32]byte // owner script hash (holder for binding)
	Period   uint64   // staking frozen period
	Target   []byte   // binding target
}

// classify reads an output script by raw bytes (the templates consensus accepts).
func classify(s []byte) (cls coinClass, hash [32]byte, period uint64, target []byte) {
	if len(s) >= 34 && s[0] == 0x00 && s[1] == 0x20 {
		copy(hash[:], s[2:34])
		switch {
		case len(s) == 34:
			return clsStd, hash, 0, nil
		case len(s) == 43 && s[34] == 0x08:
			return clsStaking, hash, binary.LittleEndian.Uint64(s[35:43]), nil
		case len(s) == 55 && s[34] == 0x14:
			return clsBindingOld, hash, 0, s[35:55]
		case len(s) == 57 && s[34] == 0x16:
			return clsBindingNew, hash, 0, s[35:57]
		}
	}
	return clsOther, [32]byte{}, 0, nil
}

// requiredConfs is the consensus rule of when the next block may spend a coin: a coin created at
// height h can be spent in block t+1 iff t-h+1 >= requiredConfs (checkTxInMaturity for coinbase,
// calcSequenceLock + SequenceLockActive for staking (F+1) and new-style binding).
func requiredConfs(c *Coin) uint64 {
	req := uint64(0)
	switch c.Class {
	case clsStaking:
		req = c.Period + 1
	case clsBindingNew:
		req = consensus.MASSIP0002BindingLockedPeriod
	}
	if c.Coinbase && consensus.CoinbaseMaturity > req {
		req = consensus.CoinbaseMaturity
	}
	return req
}

// requiredSequence is the sequence number a spending input must carry.
func requiredSequence(c *Coin) uint64 {
	switch c.Class {
	case clsStaking:
		return c.Period + 1
	case clsBindingNew:
		return consensus.MASSIP0002BindingLockedPeriod
	}
	return wire.MaxTxInSequenceNum
}

// utxoView is the set of unspent outputs of a chain prefix (all owners).
type utxoView struct {
	coins map[wire.OutPoint]*Coin
	order []wire.OutPoint // creation order (deterministic iteration)
	// binding targets currently bound (new-style), for uniqueness
	bound map[string]bool
	// spent outpoints -> spending tx hash, height
	spentBy map[wire.OutPoint]wire.Hash
}

func newView() *utxoView {
	return &utxoView{coins: map[wire.OutPoint]*Coin{}, bound: map[string]bool{}, spentBy: map[wire.OutPoint]wire.Hash{}}
}

func (v *utxoView) clone() *utxoView {
	c := newView()
	for k, x := range v.coins {
		c.coins[k] = x
	}
	c.order = append([]wire.OutPoint(nil), v.order...)
	for k := range v.bound {
		c.bound[k] = true
	}
	for k, x := range v.spentBy {
		c.spentBy[k] = x
	}
	return c
}

// applyTx spends the inputs and adds the outputs of tx at height.
func (v *utxoView) applyTx(tx *wire.MsgTx, height uint64, coinbase bool) error {
	h := tx.TxHash()
	if !coinbase {
		for _, in := range tx.TxIn {
			c, ok := v.coins[in.PreviousOutPoint]
			if !ok {
				return fmt.Errorf("model: input %v of %v not unspent", in.PreviousOutPoint, h)
			}
			if c.Class == clsBindingNew {
				delete(v.bound, string(c.Target))
			}
			delete(v.coins, in.PreviousOutPoint)
			v.spentBy[in.PreviousOutPoint] = h
		}
	}
	for i, out := range tx.TxOut {
		cls, hash, period, target := classify(out.PkScript)
		op := wire.OutPoint{Hash: h, Index: uint32(i)}
		c := &Coin{Op: op, Value: out.Value, Script: out.PkScript, Height: height, Coinbase: coinbase,
			Class: cls, Hash: hash, Period: period, Target: target}
		v.coins[op] = c
		v.order = append(v.order, op)
		if cls == clsBindingNew {
			v.bound[string(target)] = true
		}
	}
	return nil
}

func (v *utxoView) applyBlock(b *massutil.Block) error {
	for i, tx := range b.MsgBlock().Transactions {
		if err := v.applyTx(tx, b.Height(), i == 0); err != nil {
			return err
		}
	}
	return nil
}

// live returns the unspent coins in creation order.
func (v *utxoView) live() []*Coin {
	out := make([]*Coin, 0, len(v.coins))
	for _, op := range v.order {
		if c, ok := v.coins[op]; ok && c.Op == op {
			out = append(out, c)
		}
	}
	// an outpoint can be re-created (same tx re-mined); keep one entry
	seen := map[wire.OutPoint]bool{}
	uniq := out[:0]
	for _, c := range out {
		if !seen[c.Op] {
			seen[c.Op] = true
			uniq = append(uniq, c)
		}
	}
	return uniq
}

// foldChain computes the UTXO view of a chain by a plain fold over its blocks.
func foldChain(chain []*massutil.Block) (*utxoView, error) {
	v := newView()
	for _, b := range chain {
		if err := v.applyBlock(b); err != nil {
			return nil, err
		}
	}
	return v, nil
}

// ---- expected observations of one wallet ------------------------------------------------------

type expBalance struct {
	Total, Spendable, WStaking, WBinding int64
}

// walletCoins returns the coins of view owned by the script-hash set.
func walletCoins(v *utxoView, owns map[[32]byte]bool) []*Coin {
	var out []*Coin
	for _, c := range v.live() {
		if c.Class != clsOther && owns[c.Hash] {
			out = append(out, c)
		}
	}
	return out
}

// balanceOf folds coins into the four balance figures for a query with minimum confirmations
// minConf at tip height tip.
func balanceOf(coins []*Coin, tip uint64, minConf uint64) expBalance {
	var b expBalance
	for _, c := range coins {
		if c.Value == 0 {
			continue
		}
		confs := tip - c.Height + 1
		if confs < minConf {
			continue
		}
		b.Total += c.Value
		if confs >= requiredConfs(c) {
			switch c.Class {
			case clsStd:
				b.Spendable += c.Value
			case clsStaking:
				b.WStaking += c.Value
			case clsBindingOld, clsBindingNew:
				b.WBinding += c.Value
			}
		}
	}
	return b
}

func sortCoins(cs []*Coin) {
	sort.Slice(cs, func(i, j int) bool {
		if cs[i].Op.Hash != cs[j].Op.Hash {
			return cs[i].Op.Hash.String() < cs[j].Op.Hash.String()
		}
		return cs[i].Op.Index < cs[j].Op.Index
	})
}
