//go:build verif

package checks

import (
	"bytes"
	"encoding/hex"
	"fmt"
	"sort"
	"strings"
	"testing"

	"github.com/massnetorg/mass-core/blockchain"
	"github.com/massnetorg/mass-core/consensus"
	"github.com/massnetorg/mass-core/massutil"
	"github.com/massnetorg/mass-core/wire"
	"massnet.org/mass-wallet/api"
	pb "massnet.org/mass-wallet/api/proto"
	"massnet.org/mass-wallet/config"
	"massnet.org/mass-wallet/masswallet"
	"pgregory.net/rapid"
	"verifharness/ev"
	"verifharness/ref"
	"verifharness/sim"
)

// ---- C02: created transactions conserve value and spend only own, mature, free coins ---------

var c02 = ev.Open("C02", "exploration",
	"rapid: wallet coin sets produced by generated chains (fan-outs with amounts from {1,2,5}x10^k incl. dust-sized and repeated "+
		"amounts, coins larger than any target, immature coinbase, staking/binding deposits, coins spent by pending transactions, a second "+
		"wallet's coins) x sequences of 1..6 create calls (AutoCreateRawTransaction, EstimateTxFee, CreateStakingTransaction, "+
		"CreateBindingTransaction, CreateRawTransaction with explicit inputs incl. foreign/unknown/duplicate ones) with generated output "+
		"maps, user fee (0, tiny, large), lock time, from/change address (own, foreign, empty), payload, subtract-fee sets. Oracle = "+
		"validity predicate on the decoded transaction (ownership, distinct inputs, eligibility under automatic selection incl. pending-"+
		"spent and reserved-by-earlier-draft, outputs multiset = request (+ equal fee shares) + at most one change to the right address, "+
		"sum(in)-sum(out) == reported fee, fee >= user fee and >= relay minimum of the actually signed size, fee above the user's only "+
		"within the standard-size relay minimum) + success/failure regions. Non-trivial = success with >=2 inputs or change, or a failure "+
		"in the must-fail region, or >=2 successful drafts in one sequence (distinct by request hash).")

func amountOf(v int64) massutil.Amount {
	a, err := massutil.NewAmountFromInt(v)
	if err != nil {
		panic(err)
	}
	return a
}

func relayMin(size int64) int64 {
	a, _ := blockchain.CalcMinRequiredTxRelayFee(size, massutil.MinRelayTxFee())
	return a.IntValue()
}

type c02ctx struct {
	w        *World
	m        *mwallet // selected wallet
	other    *mwallet
	reserved map[wire.OutPoint]bool
	drafts   int
	labels   map[string]bool
	nontriv  bool
	reqs     []string
}

// eligible lists coins automatic selection may use.
func (c *c02ctx) eligible(t *rapid.T, from *[32]byte) []*Coin {
	view := c.w.chainView(t)
	tip := c.w.node.Height()
	pendSpent := map[wire.OutPoint]bool{}
	for _, tx := range c.w.pending {
		for _, in := range tx.TxIn {
			pendSpent[in.PreviousOutPoint] = true
		}
	}
	var out []*Coin
	for _, co := range walletCoins(view, c.m.owns) {
		if co.Class != clsStd || co.Value == 0 || tip-co.Height+1 < requiredConfs(co) || pendSpent[co.Op] || c.reserved[co.Op] {
			continue
		}
		if from != nil && co.Hash != *from {
			continue
		}
		out = append(out, co)
	}
	return out
}

func sumTopK(cs []*Coin, k int) int64 {
	vs := make([]int64, len(cs))
	for i, c := range cs {
		vs[i] = c.Value
	}
	sort.Slice(vs, func(i, j int) bool { return vs[i] > vs[j] })
	var s int64
	for i := 0; i < len(vs) && i < k; i++ {
		s += vs[i]
	}
	return s
}

type wantOut struct {
	script []byte
	value  int64
	bears  bool // recipient chosen to bear the fee
}

// verifyCreated checks the validity predicate of one successful draft.
func (c *c02ctx) verifyCreated(t *rapid.T, what, hexTx string, msgTx *wire.MsgTx, fee massutil.Amount, outs []wantOut, userFee int64,
	auto bool, from *[32]byte, changeAddr string, payload []byte, lockTime uint64, eligibleBefore []*Coin) *wire.MsgTx {
	var mtx wire.MsgTx
	if msgTx != nil {
		mtx = *msgTx
	} else {
		raw, err := hex.DecodeString(hexTx)
		if err != nil {
			t.Fatalf("%s: hex: %v", what, err)
		}
		if err := mtx.SetBytes(raw, wire.Packet); err != nil {
			t.Fatalf("%s: returned transaction does not decode: %v", what, err)
		}
	}
	view := c.w.chainView(t)
	var spentOnChain = view.spentBy
	seen := map[wire.OutPoint]bool{}
	var sumIn int64
	elig := map[wire.OutPoint]bool{}
	for _, e := range eligibleBefore {
		elig[e.Op] = true
	}
	var firstIn *Coin
	for i, in := range mtx.TxIn {
		op := in.PreviousOutPoint
		if seen[op] {
			t.Fatalf("%s: output %v is spent twice by the created transaction", what, op)
		}
		seen[op] = true
		// the coin must be an output paying the selected wallet (on the best chain, or of a pending tx)
		var coin *Coin
		if co, ok := view.coins[op]; ok {
			coin = co
		} else if ptx := c.w.node.KnownTx(op.Hash); ptx != nil && int(op.Index) < len(ptx.TxOut) {
			cls, h, p, tg := classify(ptx.TxOut[op.Index].PkScript)
			coin = &Coin{Op: op, Value: ptx.TxOut[op.Index].Value, Class: cls, Hash: h, Period: p, Target: tg}
			_ = spentOnChain
		} else if ptx := c.w.pending[op.Hash]; ptx != nil && int(op.Index) < len(ptx.TxOut) {
			cls, h, p, tg := classify(ptx.TxOut[op.Index].PkScript)
			coin = &Coin{Op: op, Value: ptx.TxOut[op.Index].Value, Class: cls, Hash: h, Period: p, Target: tg}
		}
		if coin == nil {
			t.Fatalf("%s: input %d spends %v which is not an output known to the chain or the pending set", what, i, op)
		}
		if coin.Class == clsOther || !c.m.owns[coin.Hash] {
			t.Fatalf("%s: input %d spends %v which does not belong to the selected wallet", what, i, op)
		}
		if from != nil && coin.Hash != *from {
			t.Fatalf("%s: input %d spends %v which does not belong to the requested sender address", what, i, op)
		}
		if auto && !elig[op] {
			t.Fatalf("%s: automatic selection took %v (class %s, value %d, height %d) which is not eligible (unspent, mature, not locked, not spent by a pending transaction, not reserved by an earlier draft)\n  %s",
				what, op, coin.Class, coin.Value, coin.Height, c.w.journalTail(12))
		}
		if i == 0 {
			firstIn = coin
		}
		sumIn += coin.Value
	}
	if len(mtx.TxIn) == 0 {
		t.Fatalf("%s: created transaction has no inputs", what)
	}
	var sumOut int64
	for _, o := range mtx.TxOut {
		sumOut += o.Value
	}
	if sumIn-sumOut != fee.IntValue() {
		t.Fatalf("%s: inputs %d - outputs %d = %d but the reported fee is %d", what, sumIn, sumOut, sumIn-sumOut, fee.IntValue())
	}
	// outputs: requested ones (possibly reduced by equal fee shares) + at most one change
	remaining := append([]*wire.TxOut(nil), mtx.TxOut...)
	nBear := 0
	for _, wo := range outs {
		if wo.bears {
			nBear++
		}
	}
	share := int64(-1)
	for _, wo := range outs {
		found := -1
		for i, o := range remaining {
			if !bytes.Equal(o.PkScript, wo.script) {
				continue
			}
			if !wo.bears && o.Value == wo.value {
				found = i
				break
			}
			if wo.bears && o.Value <= wo.value && (share < 0 || wo.value-o.Value == share) {
				found = i
				break
			}
		}
		if found < 0 {
			t.Fatalf("%s: requested output (%d to script %x, bears fee=%v) is missing from the created transaction", what, wo.value, wo.script[:6], wo.bears)
		}
		if wo.bears {
			share = wo.value - remaining[found].Value
		}
		remaining = append(remaining[:found], remaining[found+1:]...)
	}
	if nBear > 0 && share*int64(nBear) != fee.IntValue() {
		t.Fatalf("%s: %d recipients bear the fee with share %d each, reported fee %d", what, nBear, share, fee.IntValue())
	}
	if len(remaining) > 1 {
		t.Fatalf("%s: %d extra outputs besides the requested ones (at most one change allowed)", what, len(remaining))
	}
	if len(remaining) == 1 {
		var wantChange []byte
		if changeAddr != "" {
			a, err := massutil.DecodeAddress(changeAddr, config.ChainParams)
			if err != nil {
				t.Fatalf("HARNESS: change address: %v", err)
			}
			var h [32]byte
			copy(h[:], a.ScriptAddress())
			wantChange = sim.StdScript(h)
		} else {
			wantChange = sim.StdScript(firstIn.Hash)
		}
		if !bytes.Equal(remaining[0].PkScript, wantChange) {
			t.Fatalf("%s: change output pays script %x, want the requested change address / the address of the first input (%x)", what, remaining[0].PkScript[:8], wantChange[:8])
		}
		c.labels["change"] = true
	}
	if mtx.LockTime != lockTime {
		t.Fatalf("%s: lock time %d want %d", what, mtx.LockTime, lockTime)
	}
	if !bytes.Equal(mtx.Payload, payload) {
		t.Fatalf("%s: payload changed", what)
	}
	// fee window
	if fee.IntValue() < userFee {
		t.Fatalf("%s: fee %d below the user's fee %d", what, fee.IntValue(), userFee)
	}
	hi := relayMin(int64(blockchain.GetMaxStandardTxSize()))
	if fee.IntValue() > userFee && fee.IntValue() > hi && nBear == 0 {
		t.Fatalf("%s: fee %d exceeds both the user's fee %d and the relay minimum of a standard-size transaction %d", what, fee.IntValue(), userFee, hi)
	}
	// relay minimum of the actually signed size
	work := cloneTx(&mtx)
	if signed, err := c.w.env.W.SignRawTx([]byte(c.m.keys.Pass), "ALL", work); err == nil {
		var stx wire.MsgTx
		stx.SetBytes(signed, wire.Packet)
		if min := relayMin(int64(stx.PlainSize())); fee.IntValue() < min {
			t.Fatalf("%s: fee %d below the relay minimum %d of the signed transaction (%d bytes)", what, fee.IntValue(), min, stx.PlainSize())
		}
		c.labels["signed-size-checked"] = true
	} else {
		c.w.logf("  (signing the draft failed: %v)", err)
	}
	if len(mtx.TxIn) >= 2 {
		c.labels["multi-input"] = true
	}
	if len(mtx.TxIn) >= 2 || len(remaining) == 1 {
		c.nontriv = true
	}
	return &mtx
}

// ---- the same requests through the API handlers (package api) --------------------------------

var errAPIBigFee = fmt.Errorf("api: transaction fee above the configured ceiling")

// apiErr maps an API error code back to the wallet error it stands for, so that one oracle serves both routes.
func apiErr(err error) error {
	switch apiCode(err) {
	case 0:
		return nil
	case api.ErrAPIInsufficientWalletBalance:
		return masswallet.ErrInsufficientFunds
	case api.ErrAPINotEnoughInputs:
		return masswallet.ErrNotEnoughInputs
	case api.ErrAPIOverfullInputs:
		return masswallet.ErrOverfullUtxo
	case api.ErrAPIBigTransactionFee:
		return errAPIBigFee
	}
	return fmt.Errorf("api error %d: %v", apiCode(err), err)
}

func apiAmounts(m map[string]massutil.Amount) map[string]string {
	out := map[string]string{}
	for a, v := range m {
		out[a] = fmtAmount(v.IntValue())
	}
	return out
}

// feeOf computes inputs - outputs of a returned transaction from the model's coin values (the API
// does not report the fee).
func (c *c02ctx) feeOf(t *rapid.T, what, hexTx string) massutil.Amount {
	raw, err := hex.DecodeString(hexTx)
	var mtx wire.MsgTx
	if err != nil || mtx.SetBytes(raw, wire.Packet) != nil {
		t.Fatalf("%s: the API returned a transaction that does not decode", what)
	}
	view := c.w.chainView(t)
	var sum int64
	for _, in := range mtx.TxIn {
		op := in.PreviousOutPoint
		if co, ok := view.coins[op]; ok {
			sum += co.Value
		} else if ptx := c.w.node.KnownTx(op.Hash); ptx != nil && int(op.Index) < len(ptx.TxOut) {
			sum += ptx.TxOut[op.Index].Value
		} else if ptx := c.w.pending[op.Hash]; ptx != nil && int(op.Index) < len(ptx.TxOut) {
			sum += ptx.TxOut[op.Index].Value
		} else {
			t.Fatalf("%s: input %v of the returned transaction is unknown to the chain and the pending set", what, op)
		}
	}
	for _, o := range mtx.TxOut {
		sum -= o.Value
	}
	if sum < 0 {
		t.Fatalf("%s: the returned transaction spends %d more than its inputs hold", what, -sum)
	}
	maxFee, _ := ref.ParseAmount(c.w.env.Cfg.Wallet.Settings.MaxTxFee)
	if maxFee != nil && sum > maxFee.Int64() {
		t.Fatalf("%s: the API handed out a transaction whose fee %d exceeds the configured ceiling %s", what, sum, c.w.env.Cfg.Wallet.Settings.MaxTxFee)
	}
	c.labels["via-api"] = true
	return amountOf(sum)
}

func (c *c02ctx) createAuto(t *rapid.T, via bool, what string, amounts map[string]massutil.Amount, lockTime uint64, userFee int64, fromAddr, changeAddr string, payload []byte) (string, massutil.Amount, error) {
	if !via {
		return c.w.env.W.AutoCreateRawTransaction(amounts, lockTime, amountOf(userFee), fromAddr, changeAddr, payload)
	}
	r, err := c.w.apiSrv(t).AutoCreateTransaction(bg, &pb.AutoCreateTransactionRequest{Amounts: apiAmounts(amounts), LockTime: lockTime,
		Fee: fmtAmount(userFee), FromAddress: fromAddr, ChangeAddress: changeAddr})
	if err != nil {
		return "", massutil.ZeroAmount(), apiErr(err)
	}
	return r.Hex, c.feeOf(t, what, r.Hex), nil
}

func (c *c02ctx) createStaking(t *rapid.T, via bool, what, fromAddr, stakingAddr string, period uint32, v int64, lockTime uint64, userFee int64) (string, massutil.Amount, error) {
	if !via {
		return c.w.env.W.CreateStakingTransaction(fromAddr, []*masswallet.StakingTxOut{{Address: stakingAddr, FrozenPeriod: period, Amount: amountOf(v)}}, lockTime, amountOf(userFee))
	}
	r, err := c.w.apiSrv(t).CreateStakingTransaction(bg, &pb.CreateStakingTransactionRequest{FromAddress: fromAddr, StakingAddress: stakingAddr,
		Amount: fmtAmount(v), FrozenPeriod: period, Fee: fmtAmount(userFee)})
	if err != nil {
		return "", massutil.ZeroAmount(), apiErr(err)
	}
	return r.Hex, c.feeOf(t, what, r.Hex), nil
}

func (c *c02ctx) createBinding(t *rapid.T, via bool, what, fromAddr string, outs []*masswallet.BindingOutput, userFee int64) (string, massutil.Amount, error) {
	if !via {
		return c.w.env.W.CreateBindingTransaction(fromAddr, amountOf(userFee), outs)
	}
	req := &pb.CreateBindingTransactionRequest{FromAddress: fromAddr, Fee: fmtAmount(userFee)}
	for _, o := range outs {
		req.Outputs = append(req.Outputs, &pb.CreateBindingTransactionRequest_Output{HolderAddress: o.Holder.EncodeAddress(), BindingAddress: o.BindingTarget.EncodeAddress(), Amount: fmtAmount(o.Amount.IntValue())})
	}
	r, err := c.w.apiSrv(t).CreateBindingTransaction(bg, req)
	if err != nil {
		return "", massutil.ZeroAmount(), apiErr(err)
	}
	return r.Hex, c.feeOf(t, what, r.Hex), nil
}

func (c *c02ctx) createManual(t *rapid.T, via bool, what string, inputs []*masswallet.TxIn, amounts map[string]massutil.Amount, lockTime uint64, changeAddr string, sub map[string]struct{}) (string, massutil.Amount, error) {
	if !via {
		return c.w.env.W.CreateRawTransaction(inputs, amounts, lockTime, changeAddr, sub)
	}
	req := &pb.CreateRawTransactionRequest{Amounts: apiAmounts(amounts), LockTime: lockTime, ChangeAddress: changeAddr}
	for _, in := range inputs {
		req.Inputs = append(req.Inputs, &pb.TransactionInput{TxId: in.TxId, Vout: in.Vout})
	}
	var subs []string
	for a := range sub {
		subs = append(subs, a)
	}
	sort.Strings(subs)
	req.Subtractfeefrom = subs
	r, err := c.w.apiSrv(t).CreateRawTransaction(bg, req)
	if err != nil {
		return "", massutil.ZeroAmount(), apiErr(err)
	}
	return r.Hex, c.feeOf(t, what, r.Hex), nil
}

// probeAll asks for (almost) everything that is eligible: a request that returned no transaction
// holds no coins, so this must succeed.
func (c *c02ctx) probeAll(t *rapid.T, what string, err error, strangerAddr func() (string, [32]byte)) {
	w := c.w
	elig := c.eligible(t, nil)
	k := blockchain.GetMaxStandardTxSize() / 154
	if len(elig) == 0 || len(elig) > k {
		return
	}
	var sum int64
	for _, co := range elig {
		sum += co.Value
	}
	fhi := relayMin(int64(blockchain.GetMaxStandardTxSize())) + massutil.MinRelayTxFee().IntValue()
	if sum <= 2*fhi+100000 {
		return
	}
	addr, _ := strangerAddr()
	want := sum - fhi
	hexProbe, _, perr := w.env.W.AutoCreateRawTransaction(map[string]massutil.Amount{addr: amountOf(want)}, 0, massutil.ZeroAmount(), "", "", nil)
	if perr != nil {
		t.Fatalf("after %s failed (%v), an automatic create for %d of the %d eligible (unspent, mature, unreserved) funds failed: %v - the failed request still holds its inputs\n  %s", what, err, want, sum, perr, w.journalTail(12))
	}
	raw, _ := hex.DecodeString(hexProbe)
	var ptx wire.MsgTx
	if ptx.SetBytes(raw, wire.Packet) == nil {
		for _, in := range ptx.TxIn {
			c.reserved[in.PreviousOutPoint] = true
		}
		c.drafts++
	}
	c.labels["probe-after-failed-create"] = true
	c.nontriv = true
}

func (c *c02ctx) addrStd(h [32]byte) string {
	a, _ := massutil.NewAddressWitnessScriptHash(h[:], config.ChainParams)
	return a.EncodeAddress()
}

func genAmount(t *rapid.T, label string) int64 {
	m := int64(rapid.SampledFrom([]int{1, 2, 5}).Draw(t, label+"M"))
	k := rapid.IntRange(3, 9).Draw(t, label+"K")
	for i := 0; i < k; i++ {
		m *= 10
	}
	return m
}

func propC02(t *rapid.T) {
	useProfile(profSmall)
	if rapid.IntRange(0, 3).Draw(t, "withInternal") == 0 {
		// wallets restored with internal (change-branch) addresses, which receive coins like the others
		worldInternalHint = uint32(rapid.IntRange(1, 2).Draw(t, "internalIndex"))
	}
	w := newWorld(t, 2, 20, nil)
	worldInternalHint = 0
	defer w.close()
	w.c09mode = true
	w.allowNullData = false
	m, other := w.wallets[0], w.wallets[1]
	for i := 0; i < 2; i++ {
		if _, err := w.issueAddress(t, m, massutil.AddressClassWitnessV0); err != nil {
			t.Fatalf("NewAddress: %v", err)
		}
	}
	// funding: strangers get coinbases, then fan-outs to the wallet
	for i := 0; i < 6; i++ {
		w.withChainChange(t, func() {
			w.mineFixed(t, []*wire.TxOut{wire.NewTxOut(300000000000, sim.StdScript(w.strangers[i%3]))}, nil, true)
		})
	}
	nFan := rapid.IntRange(1, 3).Draw(t, "fanouts")
	big := ev.Thorough() && rapid.IntRange(0, 40).Draw(t, "manyCoins") == 0
	for f := 0; f < nFan; f++ {
		c := w.strangerCoin(t, 1000000000)
		if c == nil {
			break
		}
		n := rapid.IntRange(2, 30).Draw(t, "fanN")
		if big && f == 0 {
			n = 700
		}
		tx := wire.NewMsgTx()
		tx.AddTxIn(sim.Spend(c.Op.Hash, c.Op.Index, wire.MaxTxInSequenceNum))
		left := c.Value - 100000
		for i := 0; i < n && left > 0; i++ {
			v := genAmount(t, "fanAmt")
			if big {
				v = 1000000 + int64(i)
			}
			if v > left {
				v = left
			}
			h := m.issued[rapid.IntRange(0, len(m.issued)-1).Draw(t, "fanAddr")].Hash
			if rapid.IntRange(0, 9).Draw(t, "fanOther") == 0 {
				h = other.issued[0].Hash
			}
			tx.AddTxOut(wire.NewTxOut(v, sim.StdScript(h)))
			left -= v
		}
		if left > 0 {
			tx.AddTxOut(wire.NewTxOut(left, sim.StdScript(w.strangers[0])))
		}
		w.withChainChange(t, func() { w.mineFixed(t, nil, []*wire.MsgTx{tx}, true) })
	}
	if big {
		w.flag("more-than-K-coins")
	}
	for i := rapid.IntRange(0, 6).Draw(t, "moreBlocks"); i > 0; i-- {
		w.withChainChange(t, func() { w.actMine(t, true) })
	}
	for i := rapid.IntRange(0, 3).Draw(t, "pendingTxs"); i > 0; i-- {
		w.tryMempool(t)
	}
	if _, err := w.env.W.UseWallet(m.id); err != nil {
		t.Fatalf("UseWallet: %v", err)
	}
	c := &c02ctx{w: w, m: m, other: other, reserved: map[wire.OutPoint]bool{}, labels: map[string]bool{}}
	strangerAddr := func() (string, [32]byte) {
		h := w.strangers[rapid.IntRange(0, 2).Draw(t, "destStranger")]
		return c.addrStd(h), h
	}
	nCalls := rapid.IntRange(1, 6).Draw(t, "calls")
	for call := 0; call < nCalls; call++ {
		kind := rapid.SampledFrom([]string{"auto", "auto", "auto", "estimate", "staking", "binding", "manual", "manual"}).Draw(t, "callKind")
		// common request parts
		userFee := int64(rapid.SampledFrom([]int{0, 0, 1, 5000, 10000, 250000, 30000000}).Draw(t, "userFee"))
		lockTime := uint64(rapid.SampledFrom([]int{0, 0, 7, 1 << 33}).Draw(t, "lockTime"))
		var from *[32]byte
		fromAddr := ""
		switch rapid.IntRange(0, 5).Draw(t, "fromKind") {
		case 0:
			ia := m.issued[rapid.IntRange(0, len(m.issued)-1).Draw(t, "fromIdx")]
			h := ia.Hash
			from, fromAddr = &h, ia.Std
		case 1:
			fromAddr = other.issued[0].Std // foreign sender address: must be refused
		}
		changeAddr := ""
		switch rapid.IntRange(0, 4).Draw(t, "changeKind") {
		case 0:
			changeAddr = m.issued[rapid.IntRange(0, len(m.issued)-1).Draw(t, "changeIdx")].Std
		case 1:
			changeAddr, _ = strangerAddr()
		}
		payload := rapid.SliceOfN(rapid.Byte(), 0, 30).Draw(t, "payload")
		// a third of the requests travel through the API handlers (decimal strings, fee ceiling)
		via := kind != "estimate" && rapid.IntRange(0, 2).Draw(t, "viaAPI") == 0
		if via {
			payload = nil // the API's automatic create takes no payload
			if kind != "manual" && rapid.IntRange(0, 5).Draw(t, "aboveCeiling") == 0 {
				userFee = 100000000 + int64(rapid.IntRange(1, 50000000).Draw(t, "ceilingExcess")) // above the default ceiling of 1 MASS
			}
			if kind == "staking" {
				lockTime = 0
			}
		}
		maxFeeV, _ := ref.ParseAmount(w.env.Cfg.Wallet.Settings.MaxTxFee)
		bigFee := func(what string, err error) bool {
			if err != errAPIBigFee {
				return false
			}
			if userFee <= maxFeeV.Int64() {
				t.Fatalf("%s: refused for exceeding the fee ceiling %s although the user's fee is %d and the minimum fee of a standard-size transaction is far below it", what, w.env.Cfg.Wallet.Settings.MaxTxFee, userFee)
			}
			c.labels["api-fee-ceiling"] = true
			c.nontriv = true
			// nothing was handed out, so nothing may stay reserved
			c.probeAll(t, what, err, strangerAddr)
			return true
		}
		elig := c.eligible(t, from)
		var eligSum int64
		for _, e := range elig {
			eligSum += e.Value
		}
		k := blockchain.GetMaxStandardTxSize() / 154
		switch kind {
		case "auto", "estimate":
			nOut := rapid.IntRange(1, 5).Draw(t, "nOut")
			amounts := map[string]massutil.Amount{}
			var outs []wantOut
			var outSum int64
			for i := 0; i < nOut; i++ {
				var addr string
				var h [32]byte
				if rapid.IntRange(0, 3).Draw(t, "payOwn") == 0 {
					ia := m.issued[rapid.IntRange(0, len(m.issued)-1).Draw(t, "ownIdx")]
					addr, h = ia.Std, ia.Hash
				} else {
					addr, h = strangerAddr()
				}
				if _, dup := amounts[addr]; dup {
					continue
				}
				v := genAmount(t, "outAmt")
				if v < 10000 {
					v = 10000 // keep requests above the dust threshold (dust handling is not part of the statement)
				}
				if rapid.IntRange(0, 6).Draw(t, "huge") == 0 {
					v = eligSum + int64(rapid.IntRange(-2000000, 2000000).Draw(t, "nearAll"))
					if v < 10000 {
						v = 10000
					}
				}
				amounts[addr] = amountOf(v)
				outs = append(outs, wantOut{script: sim.StdScript(h), value: v})
				outSum += v
			}
			what := fmt.Sprintf("%s(outs=%d sum=%d userFee=%d from=%q change=%q)", kind, len(outs), outSum, userFee, fromAddr, changeAddr)
			c.reqs = append(c.reqs, what)
			var hexTx string
			var fee massutil.Amount
			var err error
			var est *wire.MsgTx
			if kind == "auto" {
				hexTx, fee, err = c.createAuto(t, via, what, amounts, lockTime, userFee, fromAddr, changeAddr, payload)
			} else {
				est, fee, err = w.env.W.EstimateTxFee(amounts, lockTime, amountOf(userFee), fromAddr, changeAddr, payload)
				if est != nil {
					est.LockTime = lockTime
				}
			}
			w.logf("%s via-api=%v -> err=%v fee=%v", what, via, err, fee)
			if fromAddr != "" && from == nil {
				if err == nil {
					t.Fatalf("%s: accepted a sender address that does not belong to the selected wallet", what)
				}
				continue
			}
			if bigFee(what, err) {
				continue
			}
			fhi := relayMin(int64(blockchain.GetMaxStandardTxSize()))
			if userFee > fhi {
				fhi = userFee
			}
			fhi += massutil.MinRelayTxFee().IntValue()
			if err != nil {
				if sumTopK(elig, k) >= outSum+fhi && changeAddr == "" {
					t.Fatalf("%s failed (%v) although eligible funds suffice: %d eligible coins, top-%d sum %d >= outputs %d + maximal fee %d\n  %s", what, err, len(elig), k, sumTopK(elig, k), outSum, fhi, w.journalTail(12))
				}
				if eligSum < outSum+userFee {
					if err != masswallet.ErrInsufficientFunds && err != masswallet.ErrOverfullUtxo {
						t.Fatalf("%s: eligible funds %d < outputs %d + user fee %d, want the insufficient-funds error, got %v", what, eligSum, outSum, userFee, err)
					}
					c.labels["must-fail-region"] = true
					c.nontriv = true
				}
				continue
			}
			if eligSum < outSum+userFee {
				t.Fatalf("%s succeeded although eligible funds %d < outputs %d + user fee %d", what, eligSum, outSum, userFee)
			}
			mtx := c.verifyCreated(t, what, hexTx, est, fee, outs, userFee, true, from, changeAddr, payload, lockTime, elig)
			if kind == "auto" {
				for _, in := range mtx.TxIn {
					c.reserved[in.PreviousOutPoint] = true
				}
				c.drafts++
			}
		case "staking":
			ia := m.issued[rapid.IntRange(0, len(m.issued)-1).Draw(t, "stakeIdx")]
			stk, _ := massutil.NewAddressStakingScriptHash(ia.Hash[:], config.ChainParams)
			period := consensus.MinFrozenPeriod + uint64(rapid.IntRange(0, 5).Draw(t, "period"))
			if rapid.IntRange(0, 3).Draw(t, "longPeriod") == 0 {
				// any period up to 2^32-2 is legal (only the reward weight is capped): the script must carry
				// exactly the period that was asked for
				period = rapid.SampledFrom([]uint64{consensus.MASSIP0001MaxValidPeriod, consensus.MASSIP0001MaxValidPeriod + 1, 2000000, 1 << 24, 0xfffffffe}).Draw(t, "longPeriodValue")
				c.labels["staking-period-beyond-the-reward-cap"] = true
			}
			v := int64(consensus.MinStakingValue) * int64(rapid.IntRange(1, 50).Draw(t, "stakeMul"))
			what := fmt.Sprintf("staking(value=%d period=%d userFee=%d from=%q)", v, period, userFee, fromAddr)
			c.reqs = append(c.reqs, what)
			hexTx, fee, err := c.createStaking(t, via, what, fromAddr, stk.EncodeAddress(), uint32(period), v, lockTime, userFee)
			w.logf("%s via-api=%v -> err=%v fee=%v", what, via, err, fee)
			if fromAddr != "" && from == nil {
				if err == nil {
					t.Fatalf("%s: accepted a foreign sender address", what)
				}
				continue
			}
			if bigFee(what, err) {
				continue
			}
			if err != nil {
				if eligSum < v+userFee && err != masswallet.ErrInsufficientFunds && err != masswallet.ErrOverfullUtxo {
					t.Fatalf("%s: funds %d insufficient, want the insufficient-funds error, got %v", what, eligSum, err)
				}
				continue
			}
			mtx := c.verifyCreated(t, what, hexTx, nil, fee, []wantOut{{script: sim.StakingScript(ia.Hash, period), value: v}}, userFee, true, from, "", nil, lockTime, elig)
			for _, in := range mtx.TxIn {
				c.reserved[in.PreviousOutPoint] = true
			}
			c.drafts++
			c.labels["staking-draft"] = true
		case "binding":
			// one request may carry several binding outputs (different holders and targets): each must
			// come out exactly as asked
			nB := rapid.SampledFrom([]int{1, 1, 2, 3}).Draw(t, "bindOuts")
			var bouts []*masswallet.BindingOutput
			var wants []wantOut
			var v int64
			sizes := ""
			for k := 0; k < nB; k++ {
				ia := m.issued[rapid.IntRange(0, len(m.issued)-1).Draw(t, "bindIdx")]
				holder, _ := massutil.NewAddressWitnessScriptHash(ia.Hash[:], config.ChainParams)
				var target massutil.Address
				var tb []byte
				if rapid.Bool().Draw(t, "oldTarget") {
					tb = rapid.SliceOfN(rapid.Byte(), 20, 20).Draw(t, "t20")
					target, _ = massutil.NewAddressPubKeyHash(tb, config.ChainParams)
				} else {
					tb = rapid.SliceOfN(rapid.Byte(), 22, 22).Draw(t, "t22")
					tb[20], tb[21] = 0, 24
					target, _ = massutil.NewAddressBindingTarget(tb, config.ChainParams)
				}
				vk := genAmount(t, "bindAmt")
				if vk < 10000 {
					vk = 10000
				}
				if nB > 1 {
					vk = vk/int64(nB) + 10000
				}
				dup := false
				for _, o := range wants {
					dup = dup || bytes.Equal(o.script, sim.BindingScript(ia.Hash, tb))
				}
				if dup {
					continue
				}
				bouts = append(bouts, &masswallet.BindingOutput{Holder: holder, BindingTarget: target, Amount: amountOf(vk)})
				wants = append(wants, wantOut{script: sim.BindingScript(ia.Hash, tb), value: vk})
				v += vk
				sizes += fmt.Sprintf("%dB ", len(tb))
			}
			if len(bouts) > 1 {
				c.labels["binding-request-with-several-outputs"] = true
			}
			what := fmt.Sprintf("binding(outputs=%d value=%d targets=%suserFee=%d from=%q)", len(bouts), v, sizes, userFee, fromAddr)
			c.reqs = append(c.reqs, what)
			hexTx, fee, err := c.createBinding(t, via, what, fromAddr, bouts, userFee)
			w.logf("%s via-api=%v -> err=%v fee=%v", what, via, err, fee)
			if fromAddr != "" && from == nil {
				if err == nil {
					t.Fatalf("%s: accepted a foreign sender address", what)
				}
				continue
			}
			if bigFee(what, err) {
				continue
			}
			if err != nil {
				if eligSum < v+userFee && err != masswallet.ErrInsufficientFunds && err != masswallet.ErrOverfullUtxo {
					t.Fatalf("%s: funds %d insufficient, want the insufficient-funds error, got %v", what, eligSum, err)
				}
				continue
			}
			mtx := c.verifyCreated(t, what, hexTx, nil, fee, wants, userFee, true, from, "", nil, 0, elig)
			for _, in := range mtx.TxIn {
				c.reserved[in.PreviousOutPoint] = true
			}
			c.drafts++
			c.labels["binding-draft"] = true
		case "manual":
			view := w.chainView(t)
			mine := walletCoins(view, m.owns)
			if len(mine) == 0 {
				continue
			}
			nIn := rapid.IntRange(1, min(4, len(mine))).Draw(t, "manualIn")
			perm := rapid.Permutation(mine).Draw(t, "manualOrder")
			var inputs []*masswallet.TxIn
			var inSum int64
			bad := ""
			for _, co := range perm[:nIn] {
				inputs = append(inputs, &masswallet.TxIn{TxId: co.Op.Hash.String(), Vout: co.Op.Index})
				inSum += co.Value
			}
			switch rapid.IntRange(0, 9).Draw(t, "badInput") {
			case 0:
				oc := walletCoins(view, other.owns)
				if len(oc) > 0 {
					inputs = append(inputs, &masswallet.TxIn{TxId: oc[0].Op.Hash.String(), Vout: oc[0].Op.Index})
					bad = "foreign"
				}
			case 1:
				inputs = append(inputs, &masswallet.TxIn{TxId: strings.Repeat("ab", 32), Vout: 0})
				bad = "unknown"
			case 2:
				// the same outpoint again - in half of the cases spelled differently (transaction ids are
				// hexadecimal text: upper-case names the same transaction)
				dup := *inputs[0]
				if rapid.Bool().Draw(t, "dupOtherSpelling") {
					dup.TxId = strings.ToUpper(dup.TxId)
					c.labels["duplicate-input-other-spelling"] = true
				}
				inputs = append(inputs, &dup)
				bad = "duplicate"
			case 3:
				// a legitimate list with upper-case transaction ids
				for _, in := range inputs {
					in.TxId = strings.ToUpper(in.TxId)
				}
				c.labels["upper-case-txids"] = true
			}
			nOut := rapid.IntRange(1, 3).Draw(t, "manualOuts")
			overspend := bad == "" && rapid.IntRange(0, 3).Draw(t, "overspend") == 0
			amounts := map[string]massutil.Amount{}
			var outs []wantOut
			var outSum int64
			sub := map[string]struct{}{}
			for i := 0; i < nOut; i++ {
				addr, h := strangerAddr()
				if _, dup := amounts[addr]; dup {
					continue
				}
				v := inSum / int64(nOut+1+rapid.IntRange(0, 2).Draw(t, "frac"))
				if overspend {
					// a request the named inputs cannot pay for: it must fail AFTER the inputs were accepted
					v = inSum/int64(nOut) + 1000000*int64(1+rapid.IntRange(0, 50).Draw(t, "over"))
				}
				if v < 20000 {
					v = 20000
				}
				bears := rapid.IntRange(0, 3).Draw(t, "subfee") == 0
				amounts[addr] = amountOf(v)
				if bears {
					sub[addr] = struct{}{}
				}
				outs = append(outs, wantOut{script: sim.StdScript(h), value: v, bears: bears})
				outSum += v
			}
			what := fmt.Sprintf("manual(in=%d sum=%d outs=%d sum=%d subfee=%d bad=%s change=%q)", len(inputs), inSum, len(outs), outSum, len(sub), bad, changeAddr)
			c.reqs = append(c.reqs, what)
			hexTx, fee, err := c.createManual(t, via, what, inputs, amounts, lockTime, changeAddr, sub)
			w.logf("%s via-api=%v -> err=%v fee=%v", what, via, err, fee)
			if bad == "foreign" || bad == "unknown" {
				if err == nil {
					t.Fatalf("%s: accepted an input that is not the selected wallet's", what)
				}
				continue
			}
			if err != nil {
				if bad == "" && inSum < outSum && len(sub) == 0 && err != masswallet.ErrNotEnoughInputs {
					t.Fatalf("%s: inputs %d < outputs %d, want the not-enough-inputs error, got %v", what, inSum, outSum, err)
				}
				if bad == "" {
					// no transaction came back, so nothing is held by a draft: the named coins are as
					// eligible as before. Ask for (almost) everything that is eligible.
					c.labels["failed-manual-create"] = true
					c.probeAll(t, what, err, strangerAddr)
				}
				continue
			}
			if inSum < outSum && len(sub) == 0 && bad == "" {
				t.Fatalf("%s succeeded although inputs %d < outputs %d", what, inSum, outSum)
			}
			mtx := c.verifyCreated(t, what, hexTx, nil, fee, outs, 0, false, nil, changeAddr, nil, lockTime, nil)
			for _, in := range mtx.TxIn {
				c.reserved[in.PreviousOutPoint] = true
			}
			c.drafts++
			c.labels["manual-draft"] = true
			if len(sub) > 0 {
				c.labels["subtract-fee"] = true
			}
		}
	}
	if c.drafts >= 2 {
		c.labels["two-drafts"] = true
		c.nontriv = true
	}
	var labels []string
	for l := range c.labels {
		labels = append(labels, l)
	}
	sort.Strings(labels)
	c02.Case(hkey(strings.Join(c.reqs, "|"), len(w.journal)), c.nontriv, append(labels, w.sortedFlags()...)...)
	if c.nontriv {
		c02.Sample(strings.Join(labels, "+"), 1, c.reqs)
	}
}

func TestC02(t *testing.T) {
	t.Run("create", rapid.MakeCheck(propC02))
}
