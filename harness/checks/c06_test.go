//go:build verif

package checks

import (
	"fmt"
	"github.com/massnetorg/mass-core/massutil"
	"math"
	"os"
	"strings"
	"testing"
	"time"

	"pgregory.net/rapid"

	"massnet.org/mass-wallet/masswallet"
	"verifharness/ev"
	"verifharness/guard"
	"verifharness/xdb"
)

// ---- C06: a crash at any commit boundary loses nothing and applies nothing twice --------------

var c06 = ev.Open("C06", "fault_enumeration",
	"rapid-generated histories (wallet imports with their background scan, new addresses, blocks with generated payments, "+
		"reorganisations, lagging notifications, a wallet removal with its background steps) run once without a crash (twin) and once more "+
		"as a recorded script to count the wallet-database commits C. Then for crash points c (sampled in quick, ALL c in 1..C in thorough) "+
		"the script is replayed on a fresh node + wallet whose database drops every commit after the c-th; at the end of the step in which "+
		"that happens the instance is torn down (queue of notifications, handler tip copy, pending set, keystore cache, task queue all lost), "+
		"the directory is reopened by a new WalletManager - either through the real Start() (catch-up loop + both goroutines, waited until "+
		"background work is finished, then Stop()) or in stepped mode (worker goroutine restarts from persisted statuses; catch-up by tip "+
		"announcement) - the interrupted user operation is repeated only if its effect is not in the database, a second crash may follow, "+
		"and the rest of the history runs. Oracle: the final user-visible observation (synced height, wallet list and status, balances, every "+
		"unspent output, staking/binding histories, address list with used flags) equals the twin's, which equals the chain model. "+
		"Non-trivial = the crash point fell before the last commit of the history, distinct by (history hash, c, restart mode).")

// persistedAddresses counts the addresses of a wallet that are in the database.
func (r *replayer) persistedAddresses(t *rapid.T, id string) (int, bool) {
	if _, err := r.env.W.UseWallet(id); err != nil {
		return 0, false
	}
	addrs, err := r.env.W.GetAddresses(math.MaxUint16)
	if err != nil {
		t.Fatalf("GetAddresses after restart: %v", err)
	}
	return len(addrs), true
}

// crashAndRestart tears the instance down (everything volatile is lost) and opens a new one on the
// same directory.
func (r *replayer) crashAndRestart(t *rapid.T, mode string) {
	if os.Getenv("VERIF_DEBUG") != "" {
		t0 := time.Now()
		defer func() { fmt.Fprintf(os.Stderr, "DEBUG restart mode=%s took %v\n", mode, time.Since(t0)) }()
	}
	r.env.Queue = nil
	if err := r.env.StopWallet(); err != nil {
		t.Fatalf("HARNESS-ERROR: tearing down the crashed instance: %v", err)
	}
	r.ctl.Unfreeze()
	if err := r.env.Open(false); err != nil {
		t.Fatalf("the wallet does not open after the crash: %v", err)
	}
	if mode == "live" && r.liveCrashAfter > 0 {
		// the restarted process dies again, this time inside the real Start(): k commits into its
		// catch-up loop / the first steps of its follower and worker goroutines
		k := r.liveCrashAfter
		r.liveCrashAfter = 0
		r.ctl.FreezeAfter = r.ctl.Commits() + k
		var startErr error
		o := guard.Call(60*time.Second, func() { startErr = r.env.W.Start() })
		if o.Kind != "done" {
			t.Fatalf("WalletManager.Start after the crash: %s\n%s", o.Kind, o.Stack)
		}
		if startErr == nil {
			// running: give the goroutines until the crash point (or until there is nothing left to do)
			deadline := time.Now().Add(20 * time.Second)
			for !r.ctl.Frozen() && time.Now().Before(deadline) {
				s, err := r.env.W.SyncedTo()
				if err == nil && s == r.node.Height() && !r.taskPendingQuiet() {
					break
				}
				time.Sleep(200 * time.Microsecond)
			}
			o := guard.Call(30*time.Second, func() { r.env.W.Stop() })
			if o.Kind != "done" {
				t.Fatalf("HARNESS-ERROR: Stop of the instance that is being crashed did not return (%s) - see C20", o.Kind)
			}
		} else {
			// Start gave up (a commit of its catch-up was lost): the process would exit here
			r.env.RawDB.Close()
		}
		if r.ctl.Frozen() {
			r.liveCrashes++
		}
		r.log = append(r.log, fmt.Sprintf("crash inside the live restart after %d more commits (Start error: %v, crash point reached: %v)", k, startErr, r.ctl.Frozen()))
		r.ctl.Unfreeze()
		if err := r.env.Open(false); err != nil {
			t.Fatalf("the wallet does not open after the crash inside Start(): %v", err)
		}
	}
	if mode == "live" {
		if err := r.env.W.Start(); err != nil {
			t.Fatalf("WalletManager.Start fails after the crash: %v", err)
		}
		deadline := time.Now().Add(60 * time.Second)
		for {
			s, err := r.env.W.SyncedTo()
			if err == nil && s == r.node.Height() && !r.taskPendingQuiet() {
				break
			}
			if time.Now().After(deadline) {
				t.Fatalf("after restart the running wallet does not finish its background work / catch-up within 60 s (synced %d, node %d)\n  wallets: %s\n%s",
					s, r.node.Height(), r.walletsLine(), guard.AllStacks())
			}
			time.Sleep(time.Millisecond)
		}
		o := guard.Call(30*time.Second, func() { r.env.W.Stop() })
		if o.Kind != "done" {
			t.Fatalf("HARNESS-ERROR: Stop of an idle wallet did not return (%s) - see C20", o.Kind)
		}
		if err := r.env.Open(false); err != nil {
			t.Fatalf("the wallet does not open after a clean stop: %v", err)
		}
	}
	if err := r.env.StartStepped(); err != nil {
		t.Fatalf("HARNESS-ERROR: %v", err)
	}
	if mode == "stepped-catchup" {
		if err := r.env.CatchUp(); err != nil {
			r.log = append(r.log, fmt.Sprintf("catch-up after restart -> %v", err))
		}
	}
}

// restartClean stops the instance cleanly, starts it through the real Start() (catch-up + goroutines),
// waits until background work is finished and returns to stepped mode.
func (r *replayer) restartClean(t *rapid.T) {
	if err := r.env.StopWallet(); err != nil {
		t.Fatalf("HARNESS-ERROR: %v", err)
	}
	if err := r.env.Open(false); err != nil {
		t.Fatalf("the wallet does not open after a clean stop: %v", err)
	}
	if err := r.env.W.Start(); err != nil {
		t.Fatalf("WalletManager.Start fails after a clean stop: %v", err)
	}
	deadline := time.Now().Add(60 * time.Second)
	for r.taskPendingQuiet() {
		if time.Now().After(deadline) {
			t.Fatalf("after the final restart the running wallet does not finish its background work within 60 s\n  wallets: %s\n%s", r.walletsLine(), guard.AllStacks())
		}
		time.Sleep(time.Millisecond)
	}
	o := guard.Call(30*time.Second, func() { r.env.W.Stop() })
	if o.Kind != "done" {
		t.Fatalf("HARNESS-ERROR: Stop of an idle wallet did not return (%s) - see C20", o.Kind)
	}
	if err := r.env.Open(false); err != nil {
		t.Fatalf("the wallet does not open after a clean stop: %v", err)
	}
	if err := r.env.StartStepped(); err != nil {
		t.Fatalf("HARNESS-ERROR: %v", err)
	}
}

func (r *replayer) taskPendingQuiet() bool {
	wl, err := r.env.W.Wallets()
	if err != nil {
		return true
	}
	for _, s := range wl {
		if !s.Status.Ready() || s.Status.IsRemoved() {
			return true
		}
	}
	return false
}

// redo repeats the user operation of the step that was interrupted, if its effect is not persisted.
func (r *replayer) redo(t *rapid.T, s hstep) {
	switch s.Kind {
	case "tx":
		r.step(t, s) // the unconfirmed transaction is announced again after the restart (processing it twice is harmless)
	case "import", "importJSON", "create":
		r.step(t, s) // state-based already: imports / creates only if the wallet is not listed
	case "remove":
		r.step(t, s) // state-based already: asks again only if listed and not being removed
	case "newAddress":
		if r.lastDone {
			return // the request had returned an address: it was committed before the crash
		}
		listed, ready, removing := r.walletListed(t, s.Wallet)
		if !listed || removing {
			return
		}
		if !ready {
			r.finishTasks(t)
		}
		n, ok := r.persistedAddresses(t, s.Wallet)
		if !ok {
			t.Fatalf("UseWallet(%s) fails after restart\n  wallets: %s", s.Wallet, r.walletsLine())
		}
		want := r.issued[s.Wallet] + 1 // +1: the address issued by the import
		switch {
		case n == want:
			r.step(t, s)
		default:
			t.Fatalf("after the crash wallet %s has %d addresses in the database; %d were issued by completed requests and the interrupted one reported failure", s.Wallet, n, want)
		}
	}
}

func propC06(t *rapid.T) {
	twin := genHistory(t, true)
	// optional tail: a user operation, then a reorganisation to a branch of EQUAL length as the last
	// chain event (a restarted wallet cannot see it from the height alone)
	tail := false
	if rapid.IntRange(0, 2).Draw(t, "equalLengthTail") == 0 && twin.node.Height() >= 2 && len(twin.wallets) > 0 {
		m := twin.wallets[0]
		if ready, rem, ex := twin.walletStatus(t, m.id); ex && ready && !rem && len(m.issued) < 8 {
			if _, err := twin.issueAddress(t, m, massutil.AddressClassWitnessV0); err == nil {
				tail = true
			}
		}
		twin.forcedReorgDepth = rapid.IntRange(1, 2).Draw(t, "tailDepth")
		twin.forcedEqualLength = true
		twin.actReorg(t)
		twin.deliverAll(t)
		twin.finishTasks(t)
		twin.auditLedger(t)
		twin.flag("equal-length-reorg-tail")
	}
	script := twin.script
	want := comparable(observe(t, twin.env), script)
	histKey := hkey(strings.Join(twin.journal, "\n"))
	twin.close()
	// crash-free replay: number of commits, and sanity of the recording
	var total, lastAddrCommit int64
	{
		ctl := xdb.NewCtl()
		r := newReplayer(t, ctl)
		var got []string
		func() {
			defer r.close()
			base := ctl.Commits()
			for _, s := range script {
				r.step(t, s)
				if s.Kind == "newAddress" {
					lastAddrCommit = ctl.Commits() - base
				}
			}
			r.converge(t)
			total = ctl.Commits() - base
			got = comparable(observe(t, r.env), script)
		}()
		if strings.Join(got, "\n") != strings.Join(want, "\n") {
			t.Fatalf("HARNESS: crash-free replay of the recorded script differs from the recording run\n%s  history:\n  %s", diffObs(want, got), twin.journalTail(30))
		}
	}
	if total <= 1 {
		return
	}
	var cs []int64
	if ev.Thorough() && total <= 400 {
		for c := int64(1); c <= total; c++ {
			cs = append(cs, c)
		}
	} else {
		n := 8
		if ev.Thorough() {
			n = 60
		}
		for i := 0; i < n; i++ {
			cs = append(cs, int64(rapid.IntRange(1, int(total)).Draw(t, "crashAfterCommit")))
		}
		if tail && lastAddrCommit > 0 {
			cs[0] = lastAddrCommit // the process dies right after the last user operation, before the final chain event
		}
	}
	for _, c := range cs {
		mode := rapid.SampledFrom([]string{"live", "stepped", "stepped-catchup"}).Draw(t, "restartMode")
		second := rapid.IntRange(0, 3).Draw(t, "secondCrash") == 0
		nodeMoves := rapid.Bool().Draw(t, "nodeMovesWhileDown")
		ctl := xdb.NewCtl()
		r := newReplayer(t, ctl)
		if mode == "live" && rapid.IntRange(0, 2).Draw(t, "crashInsideStart") > 0 {
			r.liveCrashAfter = int64(rapid.IntRange(1, 5).Draw(t, "liveCrashAfter"))
		}
		func() {
			defer r.close()
			ctl.FreezeAfter = ctl.Commits() + c
			crashes := 0
			crashStep := ""
			movedWhileDown, skipTo := 0, 0
			for i := 0; i < len(script); i++ {
				s := script[i]
				r.step(t, s)
				if os.Getenv("VERIF_DEBUG") != "" {
					sh, _ := r.env.W.SyncedTo()
					fmt.Fprintf(os.Stderr, "DEBUG c=%d step %d %s synced=%d node=%d pending=%d frozen=%v commits=%d\n", c, i, s.Kind, sh, r.node.Height(), len(pendingStore(t, r.env)), ctl.Frozen(), ctl.Commits())
				}
				if !ctl.Frozen() {
					continue
				}
				crashes++
				if crashStep == "" {
					crashStep = s.Kind
				}
				opReturned := r.lastDone // whether the interrupted user operation had reported success
				// the node does not wait for the wallet: if the history continues with chain changes (a
				// run of blocks / a reorganisation and their announcement), they may happen while the
				// wallet is down - the announcement then reaches nobody
				if nodeMoves && crashes == 1 {
					j := i + 1
					for ; j < len(script); j++ {
						k := script[j].Kind
						if k != "attach" && k != "detach" && k != "announce" {
							break
						}
						if k != "announce" {
							r.step(t, script[j])
						}
						movedWhileDown++
					}
					skipTo = j - 1
				}
				m := mode
				if crashes > 1 && m == "live" {
					m = "stepped"
				}
				if second && crashes == 1 {
					// the restarted process dies again a few commits later; its own restart is stepped
					m2 := "stepped"
					if mode == "stepped-catchup" {
						m2 = mode
					}
					r.crashAndRestart(t, m2)
					ctl.FreezeAfter = ctl.Commits() + int64(rapid.IntRange(1, 6).Draw(t, "secondCrashAfter"))
				} else {
					r.crashAndRestart(t, m)
				}
				r.lastDone = opReturned
				r.redo(t, s)
				if ctl.Frozen() { // the second crash fell into the repeated operation
					crashes++
					r.crashAndRestart(t, "stepped")
					r.redo(t, s)
				}
				if skipTo > i {
					i = skipTo
					skipTo = 0
				}
			}
			if ctl.Frozen() {
				r.crashAndRestart(t, "stepped")
			}
			ctl.Unfreeze()
			if crashes > 0 {
				// announcements that were queued when the process died are lost for good; what makes up for
				// them is the wallet's own start-up catch-up. So: process what is still queued, finish
				// background work, then one clean restart through the real Start() - and no extra hint.
				for len(r.env.Queue) > 0 {
					if _, err := r.env.Deliver(); err != nil {
						r.log = append(r.log, fmt.Sprintf("final deliver -> %v", err))
					}
				}
				r.finishTasks(t)
				r.restartClean(t)
			} else {
				r.converge(t)
			}
			if ctl.Frozen() {
				t.Fatalf("HARNESS: still frozen")
			}
			got := comparable(observe(t, r.env), script)
			if strings.Join(got, "\n") != strings.Join(want, "\n") {
				t.Fatalf("crash after wallet-database commit %d of %d (during a %q step, restart mode %s, %d crash(es)): the state after restart and catch-up differs from the run that never stopped\n%s  replay log:\n    %s\n  history:\n  %s",
					c, total, crashStep, mode, crashes, diffObs(want, got), strings.Join(r.log, "\n    "), twin.journalTail(30))
			}
			nontrivial := crashes > 0 && c < total
			lbl := "crash-in:" + crashStep
			if crashes == 0 {
				lbl = "crash-point-not-reached"
			}
			moved := "node-moved-while-down:no"
			if movedWhileDown > 0 {
				moved = "node-moved-while-down:yes"
			}
			inStart := "crash-inside-live-start:no"
			if r.liveCrashes > 0 {
				inStart = "crash-inside-live-start:yes"
			}
			c06.Case(hkey(histKey, c, mode, second, nodeMoves, r.liveCrashes), nontrivial, lbl, "restart:"+mode, fmt.Sprintf("crashes:%d", crashes), moved, inStart)
			if nontrivial {
				c06.Sample(lbl+"/"+mode, 1, map[string]interface{}{"crash_after_commit": c, "of": total, "mode": mode, "crashes": crashes, "history": twin.journal, "replay_log": r.log})
			}
		}()
	}
	c06.Label("histories", 1)
	if ev.Thorough() && total <= 400 {
		c06.Label("histories-with-all-commits-enumerated", 1)
	}
	_ = masswallet.ErrWalletUnready
}

func TestC06(t *testing.T) {
	t.Run("crash", rapid.MakeCheck(propC06))
}
