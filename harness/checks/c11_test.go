package checks

import (
	"bytes"
	"errors"
	"fmt"
	"os"
	"path/filepath"
	"sort"
	"strings"
	"testing"
	"time"

	mwdb "massnet.org/mass-wallet/masswallet/db"
	_ "massnet.org/mass-wallet/masswallet/db/ldb"
	"pgregory.net/rapid"
	"verifharness/ev"
)

// ---- C11: the wallet database gives atomic, isolated, ordered key/value transactions ---------

var c11 = ev.Open("C11", "exploration",
	"rapid state machine on mwdb+ldb: histories of write transactions (create/delete nested buckets depth<=4, put/delete/clear/get/"+
		"prefix-get/bucket listing with hostile keys: binary, 0x00, 0xff runs, '_' separators, digits mimicking the depth prefix, "+
		"bucket-index look-alikes) ended by commit / error return / rollback, a concurrent read transaction inside each write "+
		"transaction, full read-only audits (point, prefix, range iteration, seek) and close/reopen; oracle = in-memory nested-map "+
		"model compared after every step. Non-trivial = history containing put->delete->re-put of one key in one transaction, a "+
		"deleted-then-recreated bucket, an aborted transaction with writes, or a reopen (distinct by hash of the op trace).")

type mnode struct {
	kv   map[string][]byte
	subs map[string]*mnode
}

func newNode() *mnode { return &mnode{kv: map[string][]byte{}, subs: map[string]*mnode{}} }

func (n *mnode) clone() *mnode {
	c := newNode()
	for k, v := range n.kv {
		c.kv[k] = v
	}
	for k, s := range n.subs {
		c.subs[k] = s.clone()
	}
	return c
}

func (n *mnode) at(path []string) *mnode {
	cur := n
	for _, p := range path {
		cur = cur.subs[p]
		if cur == nil {
			return nil
		}
	}
	return cur
}

// allPaths lists every bucket path (non-empty) in the tree.
func (n *mnode) allPaths(prefix []string, out *[][]string) {
	names := make([]string, 0, len(n.subs))
	for k := range n.subs {
		names = append(names, k)
	}
	sort.Strings(names)
	for _, k := range names {
		p := append(append([]string(nil), prefix...), k)
		*out = append(*out, p)
		n.subs[k].allPaths(p, out)
	}
}

var bucketNames = []string{"a", "b", "ab", "1", "2", "10", "b1", "k", "\xff", "a\x00", " ", "t"}
var badBucketNames = []string{"", "a_b", "_", strings.Repeat("x", 257)}

func genKey(t *rapid.T, label string) []byte {
	if rapid.IntRange(0, 5).Draw(t, label+"Kind") == 0 {
		return []byte(rapid.SampledFrom([]string{"_", "__", "b_1_a", "b_2_a_b", "1_a_k", "2_a_b_k", "a_", "_a", "\xff", "\xff\xff", "\xff\xff\xff", "\x00", "\x00\x00", "a\xff", "a\xff\xff", "10", "1", "1_", "k"}).Draw(t, label+"Const"))
	}
	return rapid.SliceOfN(rapid.SampledFrom([]byte{0x00, '_', '0', '1', '2', 'a', 'b', 0xfe, 0xff}), 1, 5).Draw(t, label)
}

func genVal(t *rapid.T, label string) []byte {
	return rapid.SliceOfN(rapid.Byte(), 1, 6).Draw(t, label)
}

type c11sm struct {
	dir       string
	db        mwdb.DB
	committed *mnode
	trace     []string
	flags     map[string]bool
	qn        int
}

// navigate returns the real bucket for a model path inside tx.
func navigate(tx interface {
	TopLevelBucket(string) mwdb.Bucket
}, path []string) mwdb.Bucket {
	b := tx.TopLevelBucket(path[0])
	for _, p := range path[1:] {
		if b == nil {
			return nil
		}
		b = b.Bucket(p)
	}
	return b
}

func sortedKeys(m map[string][]byte) []string {
	ks := make([]string, 0, len(m))
	for k := range m {
		ks = append(ks, k)
	}
	sort.Strings(ks)
	return ks
}

func entriesToMap(es []*mwdb.Entry) (map[string][]byte, error) {
	m := map[string][]byte{}
	for _, e := range es {
		if _, dup := m[string(e.Key)]; dup {
			return nil, fmt.Errorf("key %q returned twice", e.Key)
		}
		m[string(e.Key)] = e.Value
	}
	return m, nil
}

func sameKV(got, want map[string][]byte) error {
	for k, v := range want {
		g, ok := got[k]
		if !ok {
			return fmt.Errorf("missing key %q", k)
		}
		if !bytes.Equal(g, v) {
			return fmt.Errorf("key %q = %x want %x", k, g, v)
		}
	}
	for k := range got {
		if _, ok := want[k]; !ok {
			return fmt.Errorf("unexpected key %q (=%x)", k, got[k])
		}
	}
	return nil
}

func sameNames(got []string, want map[string]*mnode) error {
	g := map[string]bool{}
	for _, n := range got {
		if g[n] {
			return fmt.Errorf("bucket %q listed twice", n)
		}
		g[n] = true
	}
	for n := range want {
		if !g[n] {
			return fmt.Errorf("bucket %q missing from listing %q", n, got)
		}
	}
	for n := range g {
		if _, ok := want[n]; !ok {
			return fmt.Errorf("unexpected bucket %q in listing", n)
		}
	}
	return nil
}

func withPrefix(m map[string][]byte, p []byte) map[string][]byte {
	out := map[string][]byte{}
	for k, v := range m {
		if bytes.HasPrefix([]byte(k), p) {
			out[k] = v
		}
	}
	return out
}

// auditRead compares the whole committed model with a read-only transaction.
func (s *c11sm) auditRead(t *rapid.T, rtx mwdb.ReadTransaction, model *mnode, deep bool) {
	names, err := rtx.BucketNames()
	if err != nil {
		t.Fatalf("read tx BucketNames: %v", err)
	}
	if err := sameNames(names, model.subs); err != nil {
		t.Fatalf("top-level listing: %v", err)
	}
	var paths [][]string
	model.allPaths(nil, &paths)
	for _, p := range paths {
		node := model.at(p)
		b := navigate(rtx, p)
		if b == nil {
			t.Fatalf("committed bucket %q not found in read tx", p)
		}
		sub, err := b.BucketNames()
		if err != nil {
			t.Fatalf("BucketNames(%q): %v", p, err)
		}
		if err := sameNames(sub, node.subs); err != nil {
			t.Fatalf("bucket %q listing: %v", p, err)
		}
		for k, v := range node.kv {
			g, err := b.Get([]byte(k))
			if err != nil || !bytes.Equal(g, v) {
				t.Fatalf("bucket %q Get(%q) = %x,%v want %x", p, k, g, err, v)
			}
		}
		es, err := b.GetByPrefix(nil)
		if err != nil {
			t.Fatalf("GetByPrefix(nil): %v", err)
		}
		gm, err := entriesToMap(es)
		if err != nil {
			t.Fatalf("bucket %q GetByPrefix(nil): %v", p, err)
		}
		if err := sameKV(gm, node.kv); err != nil {
			t.Fatalf("bucket %q full prefix read: %v", p, err)
		}
		// committed prefix reads are ascending
		for i := 1; i < len(es); i++ {
			if bytes.Compare(es[i-1].Key, es[i].Key) >= 0 {
				t.Fatalf("bucket %q GetByPrefix(nil) not ascending: %q then %q", p, es[i-1].Key, es[i].Key)
			}
		}
		if !deep {
			continue
		}
		// absent key
		ak := genKey(t, "absent")
		if _, ok := node.kv[string(ak)]; !ok {
			if g, err := b.Get(ak); err != nil || g != nil {
				t.Fatalf("bucket %q Get(absent %q) = %x,%v", p, ak, g, err)
			}
		}
		// prefix read
		pk := genKey(t, "prefix")
		pk = pk[:rapid.IntRange(0, len(pk)).Draw(t, "plen")]
		es, err = b.GetByPrefix(pk)
		if err != nil {
			t.Fatalf("GetByPrefix(%q): %v", pk, err)
		}
		gm, err = entriesToMap(es)
		if err != nil {
			t.Fatalf("bucket %q GetByPrefix(%q): %v", p, pk, err)
		}
		if err := sameKV(gm, withPrefix(node.kv, pk)); err != nil {
			t.Fatalf("bucket %q GetByPrefix(%q): %v", p, pk, err)
		}
		// iteration: nil range, prefix range, explicit range
		keys := sortedKeys(node.kv)
		iterate := func(what string, r *mwdb.Range, want []string) {
			it := b.NewIterator(r)
			defer it.Release()
			var got []string
			for it.Next() {
				got = append(got, string(it.Key()))
				if !bytes.Equal(it.Value(), node.kv[string(it.Key())]) {
					t.Fatalf("bucket %q iterate %s: key %q value %x want %x", p, what, it.Key(), it.Value(), node.kv[string(it.Key())])
				}
			}
			if err := it.Error(); err != nil {
				t.Fatalf("iterator error: %v", err)
			}
			if strings.Join(got, "\x01|") != strings.Join(want, "\x01|") {
				t.Fatalf("bucket %q iterate %s: got %q want %q (ascending, once each)", p, what, got, want)
			}
		}
		iterate("nil", nil, keys)
		var wantP []string
		for _, k := range keys {
			if bytes.HasPrefix([]byte(k), pk) {
				wantP = append(wantP, k)
			}
		}
		iterate(fmt.Sprintf("BytesPrefix(%q)", pk), mwdb.BytesPrefix(pk), wantP)
		lo, hi := genKey(t, "lo"), genKey(t, "hi")
		if bytes.Compare(lo, hi) > 0 {
			lo, hi = hi, lo
		}
		var wantR []string
		for _, k := range keys {
			if bytes.Compare([]byte(k), lo) >= 0 && bytes.Compare([]byte(k), hi) < 0 {
				wantR = append(wantR, k)
			}
		}
		iterate(fmt.Sprintf("Range[%q,%q)", lo, hi), &mwdb.Range{Start: lo, Limit: hi}, wantR)
		// seek inside a full iteration
		sk := genKey(t, "seek")
		it := b.NewIterator(nil)
		var wantS []string
		for _, k := range keys {
			if bytes.Compare([]byte(k), sk) >= 0 {
				wantS = append(wantS, k)
			}
		}
		ok := it.Seek(sk)
		if ok != (len(wantS) > 0) {
			t.Fatalf("bucket %q Seek(%q) = %v, matching keys %q", p, sk, ok, wantS)
		}
		if ok {
			got := []string{string(it.Key())}
			for it.Next() {
				got = append(got, string(it.Key()))
			}
			if strings.Join(got, "\x01|") != strings.Join(wantS, "\x01|") {
				t.Fatalf("bucket %q Seek(%q)+Next: got %q want %q", p, sk, got, wantS)
			}
		}
		it.Release()
	}
	// a bucket that is not in the model must not exist
	for _, n := range bucketNames {
		if _, ok := model.subs[n]; !ok {
			if b := rtx.TopLevelBucket(n); b != nil {
				t.Fatalf("top-level bucket %q exists but was never committed", n)
			}
		}
	}
}

var errAbort = errors.New("verif: abort transaction")

// queuedWriter: while write transaction A is open, a second writer B asks for a write transaction
// (it has to wait); A goes on writing and then commits or rolls back; B then runs. A must land all
// together or not at all, B must land, and neither may see or disturb the other.
func (s *c11sm) queuedWriter(t *rapid.T) {
	var tops []string
	for n := range s.committed.subs {
		tops = append(tops, n)
	}
	if len(tops) == 0 {
		t.Skip("no bucket yet")
	}
	sort.Strings(tops)
	name := tops[rapid.IntRange(0, len(tops)-1).Draw(t, "qBucket")]
	commit := rapid.IntRange(0, 2).Draw(t, "qCommit") > 0
	s.qn++
	k1, k2, kb := []byte(fmt.Sprintf("qa1-%d", s.qn)), []byte(fmt.Sprintf("qa2-%d", s.qn)), []byte(fmt.Sprintf("qb-%d", s.qn))
	v1, v2, vb := genVal(t, "qv1"), genVal(t, "qv2"), genVal(t, "qvb")
	txA, err := s.db.BeginTx()
	if err != nil {
		t.Fatalf("BeginTx: %v", err)
	}
	bA := txA.TopLevelBucket(name)
	if bA == nil {
		txA.Rollback()
		t.Fatalf("top-level bucket %q not found", name)
	}
	if err := bA.Put(k1, v1); err != nil {
		t.Fatalf("Put: %v", err)
	}
	started := make(chan struct{})
	doneB := make(chan error, 1)
	go func() {
		close(started)
		doneB <- mwdb.Update(s.db, func(tx mwdb.DBTransaction) error {
			b := tx.TopLevelBucket(name)
			if b == nil {
				return fmt.Errorf("bucket %q not found by the queued writer", name)
			}
			if v, _ := b.Get(k2); v != nil && !commit {
				return fmt.Errorf("queued writer sees %q written by a transaction that was rolled back", k2)
			}
			return b.Put(kb, vb)
		})
	}()
	<-started
	time.Sleep(15 * time.Millisecond) // B is now waiting for the writer lock
	select {
	case err := <-doneB:
		t.Fatalf("a second write transaction ran to completion (%v) while the first one was still open", err)
	default:
	}
	if err := bA.Put(k2, v2); err != nil {
		t.Fatalf("Put: %v", err)
	}
	for _, kv := range [][2][]byte{{k1, v1}, {k2, v2}} {
		if got, err := bA.Get(kv[0]); err != nil || !bytes.Equal(got, kv[1]) {
			t.Fatalf("transaction does not read its own write %q: %x, %v", kv[0], got, err)
		}
	}
	if got, _ := bA.Get(kb); got != nil {
		t.Fatalf("open transaction sees the queued writer's key %q", kb)
	}
	if commit {
		if err := txA.Commit(); err != nil {
			t.Fatalf("Commit: %v", err)
		}
		s.committed.subs[name].kv[string(k1)] = v1
		s.committed.subs[name].kv[string(k2)] = v2
	} else if err := txA.Rollback(); err != nil {
		t.Fatalf("Rollback: %v", err)
	}
	select {
	case err := <-doneB:
		if err != nil {
			t.Fatalf("queued writer: %v", err)
		}
	case <-time.After(20 * time.Second):
		t.Fatalf("queued writer still blocked 20 s after the first transaction ended")
	}
	s.committed.subs[name].kv[string(kb)] = vb
	s.flags["queued-writer"] = true
	s.trace = append(s.trace, fmt.Sprintf("queuedWriter:%s:commit=%v", name, commit))
}

var errAbandon = fmt.Errorf("c11: callback abandoned")

func (s *c11sm) writeTx(t *rapid.T) {
	work := s.committed.clone()
	nops := rapid.IntRange(1, 14).Draw(t, "nops")
	// "abandon": the callback of Update does not return (it panics after its writes); the caller recovers
	// and rolls the abandoned transaction back
	ending := rapid.SampledFrom([]string{"commit", "commit", "commit", "commit", "error", "rollback", "abandon"}).Draw(t, "ending")
	deletedInTx := map[string]bool{}
	putSeq := map[string]string{} // per key: sequence of p/d in this tx
	wrote := false
	var trace []string
	body := func(tx mwdb.DBTransaction) error {
		for i := 0; i < nops; i++ {
			var paths [][]string
			work.allPaths(nil, &paths)
			// drop paths inside buckets deleted (and not recreated) in this tx
			op := rapid.SampledFrom([]string{"put", "put", "put", "delete", "get", "prefix", "names", "newBucket", "newBucket", "deleteBucket", "clear", "createTop", "badName", "emptyKV", "deleteTop"}).Draw(t, "op")
			if len(paths) == 0 && op != "createTop" && op != "badName" && op != "deleteTop" {
				op = "createTop"
			}
			var path []string
			var b mwdb.Bucket
			if len(paths) > 0 {
				path = paths[rapid.IntRange(0, len(paths)-1).Draw(t, "path")]
				b = navigate(tx, path)
				if b == nil {
					t.Fatalf("bucket %q (exists in this transaction's view) not found", path)
				}
			}
			node := work.at(path)
			ps := strings.Join(path, "/")
			switch op {
			case "createTop":
				name := rapid.SampledFrom(bucketNames).Draw(t, "name")
				_, err := tx.CreateTopLevelBucket(name)
				if _, exists := work.subs[name]; exists {
					if err != mwdb.ErrBucketExist && !(err == nil && s.committed.subs[name] == nil) {
						t.Fatalf("CreateTopLevelBucket(%q) on existing bucket: %v", name, err)
					}
				} else {
					if err != nil {
						t.Fatalf("CreateTopLevelBucket(%q): %v", name, err)
					}
					work.subs[name] = newNode()
					wrote = true
				}
				trace = append(trace, "createTop:"+name)
			case "deleteTop":
				if err := tx.DeleteTopLevelBucket("a"); err != mwdb.ErrNotSupported {
					t.Fatalf("DeleteTopLevelBucket: %v", err)
				}
			case "badName":
				name := rapid.SampledFrom(badBucketNames).Draw(t, "bad")
				if _, err := tx.CreateTopLevelBucket(name); err != mwdb.ErrInvalidBucketName {
					t.Fatalf("CreateTopLevelBucket(%q) = %v want ErrInvalidBucketName", name, err)
				}
				if b != nil {
					if _, err := b.NewBucket(name); err != mwdb.ErrInvalidBucketName {
						t.Fatalf("NewBucket(%q) = %v want ErrInvalidBucketName", name, err)
					}
				}
			case "newBucket":
				if len(path) >= 4 {
					continue
				}
				name := rapid.SampledFrom(bucketNames).Draw(t, "name")
				_, err := b.NewBucket(name)
				if _, exists := node.subs[name]; exists {
					// a bucket committed earlier must be reported as existing; for one created earlier in this same
					// transaction the statement promises nothing about NewBucket's result (re-creating it is harmless)
					if err != mwdb.ErrBucketExist && !(err == nil && s.committed.at(append(append([]string(nil), path...), name)) == nil) {
						t.Fatalf("NewBucket(%q/%q) on existing bucket: %v", ps, name, err)
					}
				} else {
					if err != nil {
						t.Fatalf("NewBucket(%q/%q): %v", ps, name, err)
					}
					node.subs[name] = newNode()
					wrote = true
					if deletedInTx[ps+"/"+name] {
						s.flags["bucket-recreated"] = true
					}
				}
				trace = append(trace, "newBucket:"+ps+"/"+name)
			case "deleteBucket":
				if len(node.subs) == 0 {
					continue
				}
				names := make([]string, 0)
				for n := range node.subs {
					names = append(names, n)
				}
				sort.Strings(names)
				name := names[rapid.IntRange(0, len(names)-1).Draw(t, "victim")]
				if err := b.DeleteBucket(name); err != nil {
					t.Fatalf("DeleteBucket(%q/%q): %v", ps, name, err)
				}
				delete(node.subs, name)
				deletedInTx[ps+"/"+name] = true
				wrote = true
				trace = append(trace, "deleteBucket:"+ps+"/"+name)
			case "put":
				k, v := genKey(t, "k"), genVal(t, "v")
				if err := b.Put(k, v); err != nil {
					t.Fatalf("Put(%q,%q): %v", ps, k, err)
				}
				node.kv[string(k)] = v
				putSeq[ps+"\x00"+string(k)] += "p"
				wrote = true
				trace = append(trace, fmt.Sprintf("put:%s:%x", ps, k))
			case "emptyKV":
				if err := b.Put(nil, []byte{1}); err != mwdb.ErrIllegalKey {
					t.Fatalf("Put(empty key) = %v want ErrIllegalKey", err)
				}
				if err := b.Put([]byte("k"), nil); err != mwdb.ErrIllegalValue {
					t.Fatalf("Put(empty value) = %v want ErrIllegalValue", err)
				}
			case "delete":
				var k []byte
				ks := sortedKeys(node.kv)
				if len(ks) > 0 && rapid.IntRange(0, 3).Draw(t, "existing") > 0 {
					k = []byte(ks[rapid.IntRange(0, len(ks)-1).Draw(t, "ki")])
				} else {
					k = genKey(t, "k")
				}
				if err := b.Delete(k); err != nil {
					t.Fatalf("Delete(%q,%q): %v", ps, k, err)
				}
				delete(node.kv, string(k))
				putSeq[ps+"\x00"+string(k)] += "d"
				wrote = true
				trace = append(trace, fmt.Sprintf("delete:%s:%x", ps, k))
			case "clear":
				if err := b.Clear(); err != nil {
					t.Fatalf("Clear(%q): %v", ps, err)
				}
				for k := range node.kv {
					putSeq[ps+"\x00"+k] += "d"
				}
				node.kv = map[string][]byte{}
				wrote = true
				trace = append(trace, "clear:"+ps)
			}
			// read-your-writes after every step, on every bucket of the working view
			var ps2 [][]string
			if i == nops-1 || rapid.IntRange(0, 4).Draw(t, "fullAudit") == 0 {
				work.allPaths(nil, &ps2)
			} else if path != nil {
				// the touched bucket, its parent and (if any) its first child
				if work.at(path) != nil {
					ps2 = append(ps2, path)
				}
				if len(path) > 1 {
					ps2 = append(ps2, path[:len(path)-1])
				}
			}
			tn, err := tx.BucketNames()
			if err != nil {
				t.Fatalf("tx.BucketNames: %v", err)
			}
			if err := sameNames(tn, work.subs); err != nil {
				t.Fatalf("in-tx top-level listing after %v: %v", trace, err)
			}
			for _, p := range ps2 {
				bb := navigate(tx, p)
				if bb == nil {
					t.Fatalf("in-tx bucket %q vanished after %v", p, trace)
				}
				nn := work.at(p)
				sub, err := bb.BucketNames()
				if err != nil {
					t.Fatalf("in-tx BucketNames(%q): %v", p, err)
				}
				if err := sameNames(sub, nn.subs); err != nil {
					t.Fatalf("in-tx bucket %q listing after %v: %v", p, trace, err)
				}
				for k, v := range nn.kv {
					g, err := bb.Get([]byte(k))
					if err != nil || !bytes.Equal(g, v) {
						t.Fatalf("in-tx bucket %q Get(%q) = %x,%v want %x after %v", p, k, g, err, v, trace)
					}
				}
				es, err := bb.GetByPrefix(nil)
				if err != nil {
					t.Fatalf("in-tx GetByPrefix: %v", err)
				}
				gm, err := entriesToMap(es)
				if err != nil {
					t.Fatalf("in-tx bucket %q GetByPrefix(nil) after %v: %v", p, trace, err)
				}
				if err := sameKV(gm, nn.kv); err != nil {
					t.Fatalf("in-tx bucket %q prefix read after %v: %v", p, trace, err)
				}
			}
			// keys deleted in this tx read as absent
			for key, seq := range putSeq {
				if strings.HasSuffix(seq, "d") {
					parts := strings.SplitN(key, "\x00", 2)
					pp := strings.Split(parts[0], "/")
					if nn := work.at(pp); nn != nil {
						if _, again := nn.kv[parts[1]]; !again {
							if bb := navigate(tx, pp); bb != nil {
								if g, _ := bb.Get([]byte(parts[1])); g != nil {
									t.Fatalf("in-tx bucket %q Get(%q) = %x after delete (%v)", pp, parts[1], g, trace)
								}
							}
						}
					}
				}
			}
			// isolation: a concurrent read transaction sees only the committed state
			if i == nops-1 || rapid.IntRange(0, 9).Draw(t, "peek") == 0 {
				rtx, err := s.db.BeginReadTx()
				if err != nil {
					t.Fatalf("BeginReadTx: %v", err)
				}
				s.auditRead(t, rtx, s.committed, false)
				rtx.Rollback()
			}
		}
		if ending == "error" {
			return errAbort
		}
		return nil
	}
	var err error
	if ending == "rollback" {
		var tx mwdb.DBTransaction
		tx, err = s.db.BeginTx()
		if err != nil {
			t.Fatalf("BeginTx: %v", err)
		}
		body(tx)
		err = tx.Rollback()
	} else if ending == "abandon" {
		var leaked mwdb.DBTransaction
		func() {
			defer func() {
				if r := recover(); r != nil && r != errAbandon {
					panic(r) // a failure of the check itself (rapid's own panic)
				}
			}()
			_ = mwdb.Update(s.db, func(tx mwdb.DBTransaction) error {
				leaked = tx
				if e := body(tx); e != nil {
					return e
				}
				panic(errAbandon)
			})
		}()
		if leaked != nil {
			// Is the abandoned transaction still open? A second writer tells: it gets the writer lock only
			// once the first transaction has ended. If it waits, the caller gives the abandoned
			// transaction up (Rollback); if it does not, Update has ended the transaction itself - ending
			// it a second time is not defined - and what counts is what is visible below.
			got := make(chan mwdb.DBTransaction, 1)
			go func() {
				tx2, err := s.db.BeginTx()
				if err != nil {
					tx2 = nil
				}
				got <- tx2
			}()
			select {
			case tx2 := <-got:
				if tx2 != nil {
					tx2.Rollback()
				}
			case <-time.After(40 * time.Millisecond):
				_ = leaked.Rollback()
				if tx2 := <-got; tx2 != nil {
					tx2.Rollback()
				}
			}
		}
		if wrote {
			s.flags["abandoned-with-writes"] = true
		}
	} else {
		err = mwdb.Update(s.db, body)
	}
	switch ending {
	case "commit":
		if err != nil {
			t.Fatalf("Update: %v", err)
		}
		s.committed = work
	case "error":
		if err != errAbort {
			t.Fatalf("Update returned %v want the callback's error", err)
		}
		if wrote {
			s.flags["aborted-with-writes"] = true
		}
	case "rollback":
		if err != nil {
			t.Fatalf("Rollback: %v", err)
		}
		if wrote {
			s.flags["aborted-with-writes"] = true
		}
	}
	for _, seq := range putSeq {
		if strings.Contains(seq, "pdp") || strings.Contains(seq, "dp") && strings.Contains(seq, "pd") {
			s.flags["put-delete-reput"] = true
		}
	}
	s.trace = append(s.trace, strings.Join(trace, ",")+"|"+ending)
}

func propC11(t *rapid.T) {
	base := os.Getenv("VERIF_SCRATCH")
	dir, err := os.MkdirTemp(base, "c11db")
	if err != nil {
		t.Fatalf("tmp: %v", err)
	}
	defer os.RemoveAll(dir)
	dbPath := filepath.Join(dir, "w.db")
	db, err := mwdb.CreateDB("leveldb", dbPath)
	if err != nil {
		t.Fatalf("CreateDB: %v", err)
	}
	s := &c11sm{dir: dbPath, db: db, committed: newNode(), flags: map[string]bool{}}
	defer func() { s.db.Close() }()
	t.Repeat(map[string]func(*rapid.T){
		"tx":           s.writeTx,
		"queuedWriter": s.queuedWriter,
		"reopen": func(t *rapid.T) {
			if err := s.db.Close(); err != nil {
				t.Fatalf("Close: %v", err)
			}
			db, err := mwdb.OpenDB("leveldb", s.dir)
			if err != nil {
				t.Fatalf("OpenDB: %v", err)
			}
			s.db = db
			s.flags["reopen"] = true
			s.trace = append(s.trace, "reopen")
		},
		"": func(t *rapid.T) {
			err := mwdb.View(s.db, func(rtx mwdb.ReadTransaction) error {
				s.auditRead(t, rtx, s.committed, true)
				return nil
			})
			if err != nil {
				t.Fatalf("View: %v", err)
			}
		},
	})
	labels := []string{}
	for f := range s.flags {
		labels = append(labels, f)
	}
	sort.Strings(labels)
	c11.Case(hkey(strings.Join(s.trace, ";")), len(labels) > 0, labels...)
	if len(labels) > 0 {
		c11.Sample(strings.Join(labels, "+"), 1, s.trace)
	}
}

func TestC11(t *testing.T) {
	t.Run("model", rapid.MakeCheck(propC11))
}
