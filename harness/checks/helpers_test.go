//go:build verif

package checks

import "verifharness/sim"

type simKeys = sim.WalletKeys

func simEntropyFor(e []byte, pass string) (*sim.WalletKeys, int) { return sim.EntropyFor(e, pass) }

func stdScriptOf(h [32]byte) []byte { return sim.StdScript(h) }
