//go:build verif

package checks

import (
	"encoding/binary"
	"fmt"
	"sort"
	"strings"
	"time"

	"github.com/massnetorg/mass-core/consensus"
	"github.com/massnetorg/mass-core/massutil"
	"github.com/massnetorg/mass-core/wire"
	"massnet.org/mass-wallet/config"
	mwdb "massnet.org/mass-wallet/masswallet/db"
	"massnet.org/mass-wallet/masswallet/keystore"
	"pgregory.net/rapid"
	"verifharness/sim"
	"verifharness/xdb"
)

type blockT = massutil.Block

// ---- the generated world: one simulated node, one wallet instance, 1..3 wallets + strangers ---

type issuedAddr struct {
	Index uint32
	Class uint16
	Addr  string // as returned by the wallet (std or staking form)
	Std   string
	Hash  [32]byte
}

type mwallet struct {
	keys   *sim.WalletKeys
	id     string
	issued []issuedAddr
	owns   map[[32]byte]bool
	// addresses of the internal (change) branch that the wallet holds because it was restored with a
	// non-zero internal index; payments may go there too
	internal []issuedAddr
}

// payable lists every address of the wallet a generated payment may go to.
func (m *mwallet) payable() []issuedAddr {
	if len(m.internal) == 0 {
		return m.issued
	}
	return append(append([]issuedAddr(nil), m.issued...), m.internal...)
}

func (m *mwallet) stdAddrs() []string {
	var out []string
	for _, a := range m.issued {
		out = append(out, a.Std)
	}
	return out
}

// World is the state of one generated case.
type World struct {
	node              *sim.Node
	env               *sim.Env
	wallets           []*mwallet
	strangers         [][32]byte
	tipAnnounced      bool
	journal           []string
	bindCounter       uint64
	internalHint      uint32 // wallets are restored with this internal index (0 = none)
	forcedReorgDepth  int
	forcedEqualLength bool
	flags             map[string]bool
	gap               uint32
	// mempool model (C09): pending relevant transactions known to the wallet
	pending           map[wire.Hash]*wire.MsgTx
	everSeen          map[wire.Hash]*wire.MsgTx
	c09mode           bool
	depositsInMempool bool
	peers             []*sim.Env // further wallet instances watching the same node
	script            []hstep    // recorded steps (replayable on a fresh node + wallet)
	recording         bool
	ctl               *xdb.Ctl
	ctlBase           int64
	reservedExtra     map[wire.OutPoint]bool
	closed            bool // close() ran (or the case disposed of the instance itself)
	apiH              *apiHandle
	// options
	txIDs          map[*wire.MsgTx]wire.Hash // ids of the transactions of attached blocks (chainTx)
	allowNullData  bool
	allowZeroValue bool // blocks may pay value-0 outputs to wallet addresses and spend them (C01)
	allowStaking   bool
	allowBinding   bool
}

func (w *World) logf(format string, a ...interface{}) {
	w.journal = append(w.journal, fmt.Sprintf(format, a...))
}

func (w *World) flag(f string) { w.flags[f] = true }

func (w *World) sortedFlags() []string {
	var out []string
	for f := range w.flags {
		out = append(out, f)
	}
	sort.Strings(out)
	return out
}

// newWorld builds node + wallet instance and imports nWallets wallets from generated entropies.
func newWorld(t *rapid.T, nWallets int, gap uint32, wrap func(mwdb.DB) mwdb.DB) *World {
	node, err := sim.NewNode()
	if err != nil {
		t.Fatalf("HARNESS: node: %v", err)
	}
	env, err := sim.NewEnv(node, gap, wrap)
	if err != nil {
		node.Close()
		t.Fatalf("HARNESS: env: %v", err)
	}
	w := &World{node: node, env: env, flags: map[string]bool{}, gap: gap, tipAnnounced: true,
		pending: map[wire.Hash]*wire.MsgTx{}, everSeen: map[wire.Hash]*wire.MsgTx{}, reservedExtra: map[wire.OutPoint]bool{}, allowNullData: true, allowStaking: true, allowBinding: true}
	// a failing case leaves through Fatalf from anywhere: the instance (a 128 MiB write buffer per open
	// wallet database, goroutines, files) must not outlive it, or a shrinking failure exhausts memory
	t.Cleanup(w.close)
	if err := env.StartStepped(); err != nil {
		w.close()
		t.Fatalf("HARNESS: start: %v", err)
	}
	w.internalHint = worldInternalHint
	if worldRecording {
		w.recording = true
		w.ctl = worldRecCtl
		if w.ctl != nil {
			w.ctl.KeepTrace = true
			w.ctlBase = w.ctl.Calls()
		}
	}
	for i := 0; i < 3; i++ {
		var h [32]byte
		h[0], h[1], h[31] = 0xee, byte(i), byte(i+1)
		w.strangers = append(w.strangers, h)
	}
	for i := 0; i < nWallets; i++ {
		w.importNewWallet(t, i)
	}
	return w
}

func (w *World) close() {
	if w.closed {
		return
	}
	w.closed = true
	w.apiForget()
	w.env.Close()
	w.node.Close()
}

// importNewWallet imports a wallet from a generated mnemonic and serves the background import
// until the wallet is ready.
func (w *World) importNewWallet(t *rapid.T, n int) *mwallet {
	size := []int{16, 20, 24, 28, 32}[rapid.IntRange(0, 4).Draw(t, "entSize")]
	ent := rapid.SliceOfN(rapid.Byte(), size, size).Draw(t, "entropy")
	pass := fmt.Sprintf("pass%dX%s", n, rapid.StringMatching(`[a-zA-Z0-9@#$%^&]{2,8}`).Draw(t, "pass"))
	keys, bumps := sim.EntropyFor(ent, pass)
	if keys == nil {
		t.Fatalf("HARNESS: no usable entropy")
	}
	if bumps > 0 {
		c01ExcludedShort += bumps
	}
	for _, o := range w.wallets {
		if o.id == keys.ID {
			// same seed drawn twice: make it distinct
			ent[0] ^= 0x55
			keys, _ = sim.EntropyFor(ent, pass)
		}
	}
	w.record(hstep{Kind: "import", Keys: keys})
	ws, err := w.env.W.ImportWalletWithMnemonic(&keystore.WalletParams{Mnemonic: keys.Mnemonic,
		PrivatePassphrase: []byte(keys.Pass), Remarks: fmt.Sprintf("w%d", n), InternalIndex: w.internalHint, AddressGapLimit: w.gap})
	if err != nil {
		t.Fatalf("ImportWalletWithMnemonic(%q): %v", keys.Mnemonic, err)
	}
	m := &mwallet{keys: keys, id: ws.WalletID, owns: map[[32]byte]bool{}}
	w.wallets = append(w.wallets, m)
	w.finishTasks(t)
	w.syncIssued(t, m)
	for i := uint32(0); i < w.internalHint; i++ {
		a := keys.AddrInternal(i)
		m.internal = append(m.internal, issuedAddr{Index: i, Class: massutil.AddressClassWitnessV0, Addr: a.Std, Std: a.Std, Hash: a.ScriptHash})
		m.owns[a.ScriptHash] = true
		w.flag("internal-branch-addresses")
	}
	w.logf("import wallet %d id=%s addrs=%d internal=%d", n, m.id, len(m.issued), len(m.internal))
	return m
}

// walletStatus returns (ready, removing, exists).
func (w *World) walletStatus(t *rapid.T, id string) (bool, bool, bool) {
	wl, err := w.env.W.Wallets()
	if err != nil {
		t.Fatalf("Wallets(): %v", err)
	}
	for _, s := range wl {
		if s.WalletID == id {
			return s.Status.Ready(), s.Status.IsRemoved(), true
		}
	}
	return false, false, false
}

// taskPending reports whether the worker has an import or removal to continue.
func (w *World) taskPending(t *rapid.T) bool {
	wl, err := w.env.W.Wallets()
	if err != nil {
		t.Fatalf("Wallets(): %v", err)
	}
	for _, s := range wl {
		if !s.Status.Ready() || s.Status.IsRemoved() {
			return true
		}
	}
	return false
}

// finishTasks serves worker sections until no import/removal is pending.
func (w *World) finishTasks(t *rapid.T) {
	for i := 0; i < 10000; i++ {
		if !w.taskPending(t) {
			return
		}
		w.record(hstep{Kind: "serve"})
		ok, err := w.env.ServeWorker(20 * time.Second)
		if err != nil {
			t.Fatalf("HARNESS: worker: %v", err)
		}
		if !ok {
			t.Fatalf("background task pending (Wallets() reports an importing/removing wallet) but the worker never asked for its next step")
		}
	}
	t.Fatalf("background task did not finish within 10000 worker steps")
}

// syncIssued reads the wallet's address list into the model (addresses known after an import).
func (w *World) syncIssued(t *rapid.T, m *mwallet) {
	if _, err := w.env.W.UseWallet(m.id); err != nil {
		t.Fatalf("UseWallet(%s): %v", m.id, err)
	}
	// issued addresses are exactly external indexes 0..n-1; ask the wallet how many it holds
	wi, err := w.env.W.UseWallet(m.id)
	if err != nil {
		t.Fatalf("UseWallet: %v", err)
	}
	m.issued = nil
	for i := uint32(0); i < uint32(wi.ExternalKeyCount); i++ {
		a := m.keys.Addr(i)
		m.issued = append(m.issued, issuedAddr{Index: i, Class: massutil.AddressClassWitnessV0, Addr: a.Std, Std: a.Std, Hash: a.ScriptHash})
		m.owns[a.ScriptHash] = true
	}
}

// issueAddress asks the wallet for a new address and records it.
func (w *World) issueAddress(t *rapid.T, m *mwallet, class uint16) (string, error) {
	if _, err := w.env.W.UseWallet(m.id); err != nil {
		t.Fatalf("UseWallet(%s): %v", m.id, err)
	}
	w.record(hstep{Kind: "newAddress", Wallet: m.id, Class: class})
	addr, err := w.env.W.NewAddress(class)
	if err != nil {
		return "", err
	}
	dec, derr := massutil.DecodeAddress(addr, config.ChainParams)
	if derr != nil {
		t.Fatalf("NewAddress returned undecodable address %q: %v", addr, derr)
	}
	var h [32]byte
	copy(h[:], dec.ScriptAddress())
	std, _ := massutil.NewAddressWitnessScriptHash(h[:], config.ChainParams)
	m.issued = append(m.issued, issuedAddr{Index: uint32(len(m.issued)), Class: class, Addr: addr, Std: std.EncodeAddress(), Hash: h})
	m.owns[h] = true
	w.logf("newAddress w=%s class=%d -> %s", m.id[:8], class, addr)
	return addr, nil
}

// ---- transaction and block generation ---------------------------------------------------------

type txOpts struct {
	avoidWalletOutputs bool
}

// pickDest draws an output script; returns script, minimum value and whether it is a binding output.
func (w *World) pickDest(t *rapid.T, height uint64, hasBindingIn bool, budget int64) ([]byte, int64, bool) {
	kinds := []string{"wallet", "wallet", "wallet", "stranger"}
	if w.allowNullData {
		kinds = append(kinds, "nulldata", "multisig")
	}
	if w.allowZeroValue && len(w.wallets) > 0 {
		kinds = append(kinds, "wallet-zero")
	}
	if w.allowStaking && budget >= int64(consensus.MinStakingValue) {
		kinds = append(kinds, "staking", "staking")
	}
	if w.allowBinding && !hasBindingIn {
		if height < consensus.MASSIP0002WarmUpHeight || budget >= 100000000 {
			kinds = append(kinds, "binding", "binding")
		}
	}
	kind := rapid.SampledFrom(kinds).Draw(t, "destKind")
	ownerHash := func() [32]byte {
		if len(w.wallets) > 0 && rapid.IntRange(0, 5).Draw(t, "toWallet") > 0 {
			m := w.wallets[rapid.IntRange(0, len(w.wallets)-1).Draw(t, "destWallet")]
			if pa := m.payable(); len(pa) > 0 {
				return pa[rapid.IntRange(0, len(pa)-1).Draw(t, "destAddr")].Hash
			}
		}
		return w.strangers[rapid.IntRange(0, len(w.strangers)-1).Draw(t, "stranger")]
	}
	switch kind {
	case "wallet":
		if len(w.wallets) == 0 {
			return sim.StdScript(w.strangers[0]), 1, false
		}
		m := w.wallets[rapid.IntRange(0, len(w.wallets)-1).Draw(t, "destWallet")]
		if len(m.issued) == 0 {
			return sim.StdScript(w.strangers[0]), 1, false
		}
		pa := m.payable()
		a := pa[rapid.IntRange(0, len(pa)-1).Draw(t, "destAddr")]
		return sim.StdScript(a.Hash), 1, false
	case "wallet-zero":
		// an output of value 0 paid to a wallet address: valid by consensus (only negative values are
		// refused), a coin of the wallet like any other - and later transactions spend it
		m := w.wallets[rapid.IntRange(0, len(w.wallets)-1).Draw(t, "destWallet")]
		pa := m.payable()
		if len(pa) == 0 {
			return sim.StdScript(w.strangers[0]), 1, false
		}
		w.flag("zero-value-output-to-wallet")
		return sim.StdScript(pa[rapid.IntRange(0, len(pa)-1).Draw(t, "destAddr")].Hash), 0, false
	case "stranger":
		return sim.StdScript(w.strangers[rapid.IntRange(0, len(w.strangers)-1).Draw(t, "stranger")]), 1, false
	case "multisig":
		// a script class the wallet does not support, carrying value, so that later transactions spend it
		w.flag("unsupported-output")
		var pub [33]byte
		pub[0] = 2
		copy(pub[1:], w.strangers[rapid.IntRange(0, len(w.strangers)-1).Draw(t, "stranger")][:])
		return sim.BareMultiSigScript(pub), 1, false
	case "nulldata":
		w.flag("nulldata-output")
		return sim.NullDataScript(rapid.SliceOfN(rapid.Byte(), 0, 20).Draw(t, "nulldata")), 0, false
	case "staking":
		w.flag("staking-output")
		period := consensus.MinFrozenPeriod + uint64(rapid.IntRange(0, 4).Draw(t, "period"))
		if rapid.IntRange(0, 5).Draw(t, "longPeriod") == 0 {
			// any period up to 2^32-2 is legal on chain (only the reward weight is capped at
			// MASSIP0001MaxValidPeriod): such a deposit stays locked for the whole history
			period = rapid.SampledFrom([]uint64{consensus.MASSIP0001MaxValidPeriod, consensus.MASSIP0001MaxValidPeriod + 1, consensus.MASSIP0001MaxValidPeriod + 5000, 1 << 24, 0xfffffffe}).Draw(t, "longPeriodValue")
			w.flag("staking-period-beyond-the-reward-cap")
		}
		return sim.StakingScript(ownerHash(), period), int64(consensus.MinStakingValue), false
	default: // binding
		w.bindCounter++
		if height < consensus.MASSIP0002WarmUpHeight {
			w.flag("binding-old-output")
			tgt := make([]byte, 20)
			binary.BigEndian.PutUint64(tgt[12:], w.bindCounter)
			tgt[0] = 0xb0
			return sim.BindingScript(ownerHash(), tgt), 1, true
		}
		w.flag("binding-new-output")
		tgt := make([]byte, 22)
		binary.BigEndian.PutUint64(tgt[12:], w.bindCounter)
		tgt[0] = 0xb1
		tgt[20] = 0                                              // MASS proof type
		tgt[21] = byte(24 + 2*rapid.IntRange(0, 4).Draw(t, "k")) // bit length 24..32
		return sim.BindingScript(ownerHash(), tgt), 100000000, true
	}
}

// spendable reports whether consensus lets a block at height `next` spend c.
func spendableAt(c *Coin, next uint64) bool {
	if c.Class == clsBindingNew {
		// the node itself cannot connect a block that spends a new-style binding (its network-binding
		// bookkeeping underflows: Amount.AddInt(-value)); on main net the lock is 2^32-2 blocks anyway
		return false
	}
	if c.Class == clsBindingOld && c.Height >= next {
		// the node's own binding index cannot spend a binding output inside the block that creates it
		return false
	}
	// clsOther with a value is an unsupported but spendable script (bare multisig): nobody's coin, yet
	// transactions that spend it reach the wallet when they also touch a wallet
	return next-c.Height >= requiredConfs(c) && (c.Class != clsOther || c.Value > 0)
}

// genTx draws one transaction valid on top of view for a block at height next; nil if nothing to spend.
func (w *World) genTx(t *rapid.T, view *utxoView, next uint64, prefer func(*Coin) bool) *wire.MsgTx {
	var cands []*Coin
	for _, c := range view.live() {
		if spendableAt(c, next) && (c.Value > 0 || (w.allowZeroValue && c.Class == clsStd)) && w.coinAllowed(c) {
			cands = append(cands, c)
		}
	}
	if len(cands) == 0 {
		return nil
	}
	// bias towards wallet-owned coins and recent coins
	var pref []*Coin
	for _, c := range cands {
		if prefer != nil && prefer(c) {
			pref = append(pref, c)
		}
	}
	nIn := rapid.IntRange(1, 3).Draw(t, "nIn")
	// now and then a sweep: several inputs (often of different wallets) into a single output
	sweep := rapid.IntRange(0, 7).Draw(t, "sweep") == 0
	if sweep {
		nIn = 3
	}
	tx := wire.NewMsgTx()
	used := map[wire.OutPoint]bool{}
	var total int64
	hasBindingIn := false
	for i := 0; i < nIn; i++ {
		pool := cands
		if len(pref) > 0 && rapid.IntRange(0, 3).Draw(t, "preferOwned") > 0 {
			pool = pref
		}
		c := pool[rapid.IntRange(0, len(pool)-1).Draw(t, "coin")]
		if used[c.Op] {
			continue
		}
		used[c.Op] = true
		tx.AddTxIn(sim.Spend(c.Op.Hash, c.Op.Index, requiredSequence(c)))
		total += c.Value
		if c.Class == clsBindingOld || c.Class == clsBindingNew {
			hasBindingIn = true
			w.flag("binding-withdrawal")
		}
		if c.Class == clsStaking {
			w.flag("staking-withdrawal")
		}
	}
	fee := int64(rapid.IntRange(0, 1000).Draw(t, "fee"))
	if fee >= total {
		fee = 0
	}
	remaining := total - fee
	nOut := rapid.IntRange(1, 4).Draw(t, "nOut")
	if sweep {
		nOut = 1
		w.flag("sweep-transaction")
	}
	for i := 0; i < nOut && remaining > 0; i++ {
		script, min, _ := w.pickDest(t, next, hasBindingIn, remaining)
		var v int64
		if i == nOut-1 {
			v = remaining
		} else {
			v = remaining * int64(rapid.IntRange(1, 9).Draw(t, "share")) / 10
		}
		if min == 0 { // nulldata carries no value
			tx.AddTxOut(wire.NewTxOut(0, script))
			continue
		}
		if v < min {
			if remaining < min {
				// not enough left for this class: fall back to a plain payment
				script, v = sim.StdScript(w.strangers[0]), remaining
			} else {
				v = min
			}
		}
		tx.AddTxOut(wire.NewTxOut(v, script))
		remaining -= v
	}
	if len(tx.TxOut) == 0 {
		tx.AddTxOut(wire.NewTxOut(total-fee, sim.StdScript(w.strangers[0])))
	}
	return tx
}

// coinAllowed: with pending transactions in play (C09) a block must not double-spend a pending
// transaction through a coin no wallet owns: the wallet is only told about relevant transactions,
// so such a conflict is invisible to it by construction.
func (w *World) coinAllowed(c *Coin) bool {
	if !w.c09mode || w.ownedByAny(c) {
		return true
	}
	if w.reservedExtra[c.Op] {
		return false
	}
	for _, tx := range w.pending {
		for _, in := range tx.TxIn {
			if in.PreviousOutPoint == c.Op {
				return false
			}
		}
	}
	return true
}

// coinbaseOuts draws the outputs of a coinbase (plain payments only).
func (w *World) coinbaseOuts(t *rapid.T) []*wire.TxOut {
	n := rapid.IntRange(0, 2).Draw(t, "cbOuts")
	var outs []*wire.TxOut
	for i := 0; i < n; i++ {
		var h [32]byte
		if len(w.wallets) > 0 && rapid.IntRange(0, 3).Draw(t, "cbToWallet") > 0 {
			m := w.wallets[rapid.IntRange(0, len(w.wallets)-1).Draw(t, "cbWallet")]
			pa := m.payable()
			h = pa[rapid.IntRange(0, len(pa)-1).Draw(t, "cbAddr")].Hash
			w.flag("coinbase-to-wallet")
		} else {
			h = w.strangers[rapid.IntRange(0, len(w.strangers)-1).Draw(t, "cbStranger")]
		}
		v := int64(rapid.IntRange(1, 50).Draw(t, "cbValue")) * 100000000
		outs = append(outs, wire.NewTxOut(v, sim.StdScript(h)))
	}
	return outs
}

func (w *World) ownedByAny(c *Coin) bool {
	for _, m := range w.wallets {
		if m.owns[c.Hash] {
			return true
		}
	}
	return false
}

// buildBlock draws a block on top of prev given the UTXO view of prev's chain; view is advanced.
// carry are transactions that should be (re-)included if still valid.
func (w *World) buildBlock(t *rapid.T, prev *massutil.Block, view *utxoView, carry []*wire.MsgTx, maxTx int) *massutil.Block {
	next := prev.Height() + 1
	var txs []*wire.MsgTx
	work := view.clone()
	tryAdd := func(tx *wire.MsgTx) bool {
		tmp := work.clone()
		if err := tmp.applyTx(tx, next, false); err != nil {
			return false
		}
		// consensus maturity / sequence rules for every input, evaluated on the pre-tx view
		for _, in := range tx.TxIn {
			c := work.coins[in.PreviousOutPoint]
			if c == nil || !spendableAt(c, next) || in.Sequence != requiredSequence(c) {
				return false
			}
		}
		// new-style binding targets must be unbound
		for _, o := range tx.TxOut {
			cls, _, _, tgt := classify(o.PkScript)
			if cls == clsBindingNew && work.bound[string(tgt)] {
				return false
			}
			if cls == clsBindingNew && next < consensus.MASSIP0002WarmUpHeight {
				return false
			}
			if cls == clsBindingOld && next >= consensus.MASSIP0002WarmUpHeight {
				return false
			}
		}
		*work = *tmp
		txs = append(txs, tx)
		return true
	}
	for _, tx := range carry {
		tryAdd(tx)
	}
	n := rapid.IntRange(0, maxTx).Draw(t, "nTx")
	for i := 0; i < n; i++ {
		tx := w.genTx(t, work, next, w.ownedByAny)
		if tx == nil {
			break
		}
		if tryAdd(tx) {
			// count spend chains inside one block
			for _, in := range tx.TxIn {
				for _, other := range txs[:len(txs)-1] {
					if other.TxHash() == in.PreviousOutPoint.Hash {
						w.flag("in-block-spend-chain")
					}
				}
			}
		}
	}
	cbOuts := w.coinbaseOuts(t)
	blk := w.node.NewBlock(prev, cbOuts, txs)
	if err := view.applyBlock(blk); err != nil {
		t.Fatalf("HARNESS: built block does not apply to its own view: %v", err)
	}
	// classify relevance
	owners := map[int]bool{}
	for _, tx := range txs {
		touched := map[int]bool{}
		for i, m := range w.wallets {
			for _, o := range tx.TxOut {
				_, h, _, _ := classify(o.PkScript)
				if m.owns[h] {
					touched[i] = true
				}
			}
		}
		if len(touched) >= 2 {
			w.flag("tx-shared-by-two-wallets")
		}
		for i := range touched {
			owners[i] = true
		}
	}
	return blk
}

// relevant reports whether a block contains a transaction paying or spending a wallet.
func (w *World) relevant(b *massutil.Block, before *utxoView) bool {
	for _, tx := range b.MsgBlock().Transactions {
		for _, o := range tx.TxOut {
			_, h, _, _ := classify(o.PkScript)
			for _, m := range w.wallets {
				if m.owns[h] {
					return true
				}
			}
		}
	}
	return false
}

func (w *World) chainView(t *rapid.T) *utxoView {
	v, err := foldChain(w.node.Chain)
	if err != nil {
		t.Fatalf("HARNESS: %v", err)
	}
	return v
}

// actMine extends the best chain by one block and announces it.
func (w *World) actMine(t *rapid.T, announce bool) {
	view := w.chainView(t)
	var carry []*wire.MsgTx
	if w.c09mode {
		// confirm a generated subset of the pending transactions (parents first: two passes)
		for pass := 0; pass < 2; pass++ {
			for _, h := range w.pendingOrder() {
				if rapid.IntRange(0, 2).Draw(t, "confirmPending") == 0 {
					carry = append(carry, w.pending[h])
				}
			}
		}
	}
	blk := w.buildBlock(t, w.node.Tip(), view, carry, 4)
	w.record(hstep{Kind: "attach", Block: blk})
	if err := w.node.Attach(blk); err != nil {
		t.Fatalf("HARNESS: attach: %v\n  %s\n%s", err, w.journalTail(30), dumpBlock(blk))
	}
	if announce {
		w.announce(blk.MsgBlock())
		w.tipAnnounced = true
		w.logf("mine h=%d txs=%d (announced, queue=%d)", blk.Height(), len(blk.MsgBlock().Transactions)-1, len(w.env.Queue))
		if len(w.env.Queue) >= 2 {
			w.flag("queued>=2")
		}
	} else {
		w.tipAnnounced = false
		w.flag("silent-import")
		w.logf("mine h=%d txs=%d (silent)", blk.Height(), len(blk.MsgBlock().Transactions)-1)
	}
}

// actReorg disconnects d blocks and connects m new ones, with ONE notification for the new tip.
func (w *World) actReorg(t *rapid.T) {
	h := int(w.node.Height())
	if h < 1 {
		t.Skip("nothing to reorganise")
	}
	maxD := h
	if maxD > 8 {
		maxD = 8
	}
	d := 0
	if w.forcedReorgDepth > 0 {
		// a deep reorganisation down to a chosen height (C07: the rescan cursor of an importing wallet)
		d = w.forcedReorgDepth
		if d > h {
			d = h
		}
		w.forcedReorgDepth = 0
	} else {
		d = rapid.IntRange(1, maxD).Draw(t, "depth")
		if d > 3 && rapid.IntRange(0, 2).Draw(t, "shallow") > 0 {
			d = rapid.IntRange(1, 3).Draw(t, "depthShallow")
		}
	}
	m := d + rapid.IntRange(0, 3).Draw(t, "extra")
	if w.forcedEqualLength {
		m = d
		w.forcedEqualLength = false
	}
	// transactions of the disconnected blocks, oldest first
	var rolled []*wire.MsgTx
	relevantRolled := false
	old := w.node.Chain[len(w.node.Chain)-d:]
	for _, b := range old {
		for i, tx := range b.MsgBlock().Transactions {
			if i > 0 {
				rolled = append(rolled, tx)
			}
			for _, o := range tx.TxOut {
				_, hh, _, _ := classify(o.PkScript)
				for _, mw := range w.wallets {
					if mw.owns[hh] {
						relevantRolled = true
					}
				}
			}
		}
	}
	for i := 0; i < d; i++ {
		w.record(hstep{Kind: "detach"})
		if err := w.node.DetachTip(); err != nil {
			t.Fatalf("HARNESS: detach: %v", err)
		}
	}
	view := w.chainView(t)
	if w.c09mode {
		for _, tx := range rolled {
			for _, in := range tx.TxIn {
				w.reservedExtra[in.PreviousOutPoint] = true
			}
		}
		defer func() { w.reservedExtra = map[wire.OutPoint]bool{} }()
	}
	// fate of each rolled-back transaction
	var remine []*wire.MsgTx
	var conflicts []*wire.MsgTx
	for _, tx := range rolled {
		switch rapid.SampledFrom([]string{"remine", "remine", "drop", "doublespend"}).Draw(t, "fate") {
		case "remine":
			remine = append(remine, tx)
			w.flag("rolled-back-tx-remined")
		case "drop":
			w.flag("rolled-back-tx-dropped")
		case "doublespend":
			// a different transaction spending the same first input
			in0 := tx.TxIn[0]
			if w.c09mode {
				found := false
				for _, in := range tx.TxIn {
					if cc := view.coins[in.PreviousOutPoint]; cc != nil && w.ownedByAny(cc) {
						in0, found = in, true
						break
					}
				}
				if !found {
					continue
				}
			}
			c := view.coins[in0.PreviousOutPoint]
			if c == nil || c.Value == 0 {
				continue
			}
			ds := wire.NewMsgTx()
			ds.AddTxIn(sim.Spend(in0.PreviousOutPoint.Hash, in0.PreviousOutPoint.Index, in0.Sequence))
			ds.AddTxOut(wire.NewTxOut(c.Value, sim.StdScript(w.strangers[rapid.IntRange(0, len(w.strangers)-1).Draw(t, "dsTo")])))
			ds.Payload = []byte{0xd5}
			conflicts = append(conflicts, ds)
			w.flag("rolled-back-tx-double-spent")
		}
	}
	var last *massutil.Block
	prev := w.node.Tip()
	for i := 0; i < m; i++ {
		var carry []*wire.MsgTx
		if i == 0 || rapid.Bool().Draw(t, "carryLater") {
			carry = append(append(carry, conflicts...), remine...)
		}
		var blk *massutil.Block
		if i >= 3 && m > 12 {
			// the tail of a deep replacement branch is quiet (keeps the case small and fast)
			blk = w.node.NewBlock(prev, nil, nil)
		} else {
			blk = w.buildBlock(t, prev, view, carry, 3)
		}
		// drop carried transactions that made it
		in := map[wire.Hash]bool{}
		for _, tx := range blk.MsgBlock().Transactions {
			in[tx.TxHash()] = true
		}
		remine = filterTx(remine, in)
		conflicts = filterTx(conflicts, in)
		w.record(hstep{Kind: "attach", Block: blk})
		if err := w.node.Attach(blk); err != nil {
			t.Fatalf("HARNESS: attach (reorg): %v", err)
		}
		prev, last = blk, blk
	}
	w.announce(last.MsgBlock())
	w.tipAnnounced = true
	w.flag(fmt.Sprintf("reorg-depth-%d", min(d, 4)))
	if relevantRolled {
		w.flag("reorg-disconnects-relevant-tx")
	}
	if m == d {
		w.flag("reorg-equal-length")
	}
	w.logf("reorg depth=%d new=%d tip=%d (queue=%d)", d, m, w.node.Height(), len(w.env.Queue))
	if len(w.env.Queue) >= 2 {
		w.flag("queued>=2")
	}
}

func min(a, b int) int {
	if a < b {
		return a
	}
	return b
}

func filterTx(txs []*wire.MsgTx, drop map[wire.Hash]bool) []*wire.MsgTx {
	var out []*wire.MsgTx
	for _, tx := range txs {
		if !drop[tx.TxHash()] {
			out = append(out, tx)
		}
	}
	return out
}

// announce queues a tip notification for every wallet instance watching the node.
func (w *World) announce(b *wire.MsgBlock) {
	w.record(hstep{Kind: "announce", Msg: b})
	w.env.Announce(b)
	for _, p := range w.peers {
		p.Announce(b)
	}
}

// actDeliver processes one queued notification (errors on stale tips are legitimate).
func (w *World) actDeliver(t *rapid.T) {
	if len(w.env.Queue) == 0 {
		t.Skip("no queued notification")
	}
	h := w.env.Queue[0].Header.Height
	w.record(hstep{Kind: "deliver"})
	_, err := w.env.Deliver()
	if err != nil {
		w.logf("deliver h=%d -> %v", h, err)
	} else {
		w.logf("deliver h=%d ok", h)
	}
}

func (w *World) deliverAll(t *rapid.T) {
	for len(w.env.Queue) > 0 {
		h := w.env.Queue[0].Header.Height
		w.record(hstep{Kind: "deliver"})
		if _, err := w.env.Deliver(); err != nil {
			w.logf("deliver h=%d -> %v", h, err)
		}
	}
}

// quiescent: every announced tip processed, current tip was announced, no background task.
func (w *World) quiescent(t *rapid.T) bool {
	return len(w.env.Queue) == 0 && w.tipAnnounced && !w.taskPending(t)
}

func (w *World) journalTail(n int) string {
	j := w.journal
	if len(j) > n {
		j = j[len(j)-n:]
	}
	return strings.Join(j, "\n  ")
}

func dumpBlock(b *massutil.Block) string {
	var sb strings.Builder
	for i, tx := range b.MsgBlock().Transactions {
		fmt.Fprintf(&sb, "    tx %d %s\n", i, tx.TxHash().String()[:10])
		for _, in := range tx.TxIn {
			fmt.Fprintf(&sb, "      in  %s:%d seq=%d\n", in.PreviousOutPoint.Hash.String()[:10], in.PreviousOutPoint.Index, in.Sequence)
		}
		for j, o := range tx.TxOut {
			cls, _, p, tg := classify(o.PkScript)
			fmt.Fprintf(&sb, "      out %d %d %s period=%d target=%x\n", j, o.Value, cls, p, tg)
		}
	}
	return sb.String()
}

var (
	worldRecording bool
	worldRecCtl    *xdb.Ctl
	// worldInternalHint: wallets of the next worlds are restored with this internal index
	worldInternalHint uint32
)

// hstep is one recorded step of a history: node operations carry the concrete block so that the
// same history can be replayed on a fresh node and wallet instance.
type hstep struct {
	Kind   string // attach | detach | announce | deliver | serve | import | importJSON | newAddress | remove | tx | create
	Block  *massutil.Block
	Msg    *wire.MsgBlock
	Wallet string
	Class  uint16
	Keys   *sim.WalletKeys
	Pass   string
	JSON   string      // exported keystore (importJSON)
	Tx     *wire.MsgTx // unconfirmed transaction handed to the wallet (tx)
	N      int         // create: ordinal of the created wallet (the step is idempotent: at least N created wallets exist afterwards)
}

func (w *World) record(s hstep) {
	if w.recording {
		w.script = append(w.script, s)
	}
}
