//go:build verif

package checks

import (
	"bytes"
	"encoding/hex"
	"fmt"
	"sort"
	"strings"
	"testing"

	"encoding/binary"

	"github.com/massnetorg/mass-core/consensus"
	"github.com/massnetorg/mass-core/massutil"
	"github.com/massnetorg/mass-core/wire"
	"massnet.org/mass-wallet/config"
	mwdb "massnet.org/mass-wallet/masswallet/db"
	"pgregory.net/rapid"
	"verifharness/ev"
	"verifharness/sim"
)

// ---- C09: pending transactions are tracked exactly ---------------------------------------------

var c09 = ev.Open("C09", "exploration",
	"rapid state machine: C01's node/wallet world plus unconfirmed transactions delivered to the handler (spends of wallet coins, "+
		"payments to the wallet, chains of unconfirmed transactions, duplicates, conflicting spends of one wallet coin), interleaved with "+
		"blocks that confirm them, confirm a conflicting spend, and reorganisations that un-confirm them (rolled-back transaction re-mined, "+
		"dropped or double-spent through a wallet coin). Oracle = pending-set model (insert, dedupe, settle once, purge conflict + all "+
		"unconfirmed descendants, return on un-confirm) compared with the wallet's pending store read back and decoded, GetUtxo's "+
		"spent_by_unmined flag for every wallet coin, the inputs chosen by AutoCreateRawTransaction, residue in the pending-input / "+
		"pending-credit stores, plus C01's ledger audit. Non-trivial = history in which a pending transaction was confirmed, "+
		"conflicted or un-confirmed (distinct by journal hash).")

// pendingSpenders returns pending txs spending op.
func (w *World) pendingSpenders(op wire.OutPoint) []wire.Hash {
	var out []wire.Hash
	for _, h := range w.pendingOrder() {
		for _, in := range w.pending[h].TxIn {
			if in.PreviousOutPoint == op {
				out = append(out, h)
			}
		}
	}
	return out
}

func (w *World) pendingOrder() []wire.Hash {
	hs := make([]wire.Hash, 0, len(w.pending))
	for h := range w.pending {
		hs = append(hs, h)
	}
	sort.Slice(hs, func(i, j int) bool { return bytes.Compare(hs[i][:], hs[j][:]) < 0 })
	return hs
}

// removePendingWithDescendants drops tx h and every pending transaction that (transitively) spends its outputs.
func (w *World) removePendingWithDescendants(h wire.Hash, why string) {
	tx, ok := w.pending[h]
	if !ok {
		return
	}
	delete(w.pending, h)
	w.logf("  model: pending %s removed (%s)", h.String()[:10], why)
	for i := range tx.TxOut {
		for _, s := range w.pendingSpenders(wire.OutPoint{Hash: h, Index: uint32(i)}) {
			w.removePendingWithDescendants(s, "descendant of "+h.String()[:10])
		}
	}
}

func (w *World) ownerOfScript(script []byte) bool {
	cls, h, _, _ := classify(script)
	if cls == clsOther {
		return false
	}
	for _, m := range w.wallets {
		if m.owns[h] {
			return true
		}
	}
	return false
}

// prevScript finds the output script an input spends (any tx the node or the pending set knows).
func (w *World) prevScript(op wire.OutPoint) []byte {
	if tx := w.node.KnownTx(op.Hash); tx != nil && int(op.Index) < len(tx.TxOut) {
		return tx.TxOut[op.Index].PkScript
	}
	if tx := w.pending[op.Hash]; tx != nil && int(op.Index) < len(tx.TxOut) {
		return tx.TxOut[op.Index].PkScript
	}
	if tx := w.everSeen[op.Hash]; tx != nil && int(op.Index) < len(tx.TxOut) {
		return tx.TxOut[op.Index].PkScript
	}
	return nil
}

func (w *World) txRelevant(tx *wire.MsgTx, coinbase bool) bool {
	for _, o := range tx.TxOut {
		if w.ownerOfScript(o.PkScript) {
			return true
		}
	}
	if !coinbase {
		for _, in := range tx.TxIn {
			if s := w.prevScript(in.PreviousOutPoint); s != nil && w.ownerOfScript(s) {
				return true
			}
		}
	}
	return false
}

// applyChainChange updates the pending model for a chain change the wallet has fully processed.
func (w *World) applyChainChange(before, after []*massutil.Block) {
	fork := 0
	for fork < len(before) && fork < len(after) && *before[fork].Hash() == *after[fork].Hash() {
		fork++
	}
	// disconnect, tip first
	for i := len(before) - 1; i >= fork; i-- {
		txs := before[i].MsgBlock().Transactions
		for j := len(txs) - 1; j >= 0; j-- {
			tx := txs[j]
			if j == 0 {
				// pending spenders of a disconnected coinbase can never confirm
				h := tx.TxHash()
				for k := range tx.TxOut {
					if !w.ownerOfScript(tx.TxOut[k].PkScript) {
						// a coinbase output no wallet owns: its disappearance is invisible to the wallet
						continue
					}
					for _, s := range w.pendingSpenders(wire.OutPoint{Hash: h, Index: uint32(k)}) {
						w.removePendingWithDescendants(s, "spends rolled-back coinbase "+h.String()[:10])
						w.flag("pending-spender-of-rolled-back-coinbase-removed")
					}
				}
				continue
			}
			if w.txRelevant(tx, false) {
				w.pending[tx.TxHash()] = tx
				w.logf("  model: %s un-confirmed (block %d disconnected) -> pending", tx.TxHash().String()[:10], before[i].Height())
				w.flag("pending-unconfirmed-by-reorg")
			}
		}
	}
	// connect
	for i := fork; i < len(after); i++ {
		for j, tx := range after[i].MsgBlock().Transactions {
			if !w.txRelevant(tx, j == 0) {
				continue
			}
			h := tx.TxHash()
			if _, ok := w.pending[h]; ok {
				delete(w.pending, h)
				w.logf("  model: pending %s confirmed at h=%d", h.String()[:10], after[i].Height())
				w.flag("pending-confirmed")
			}
			if j == 0 {
				continue
			}
			for _, in := range tx.TxIn {
				s := w.prevScript(in.PreviousOutPoint)
				if s == nil || !w.ownerOfScript(s) {
					continue
				}
				for _, c := range w.pendingSpenders(in.PreviousOutPoint) {
					if c != h {
						w.removePendingWithDescendants(c, fmt.Sprintf("conflicts with mined %s on wallet coin %s:%d", h.String()[:10], in.PreviousOutPoint.Hash.String()[:10], in.PreviousOutPoint.Index))
						w.flag("pending-conflicted")
					}
				}
			}
		}
	}
}

// withChainChange runs a node action, lets the wallet process every notification, then updates the model.
func (w *World) withChainChange(t *rapid.T, action func()) {
	before := append([]*massutil.Block(nil), w.node.Chain...)
	action()
	w.deliverAll(t)
	w.applyChainChange(before, w.node.Chain)
}

// actMempool delivers one unconfirmed transaction to the handler.
func (w *World) actMempool(t *rapid.T) {
	if !w.tryMempool(t) {
		t.Skip("nothing to spend")
	}
}

// tryMempool reports false when no transaction could be built.
func (w *World) tryMempool(t *rapid.T) bool {
	view := w.chainView(t)
	next := w.node.Height() + 1
	// coins: confirmed spendable + outputs of pending transactions
	type cand struct {
		c     *Coin
		owned bool
	}
	var owned, foreign []*Coin
	for _, c := range view.live() {
		if !spendableAt(c, next) || c.Value == 0 {
			continue
		}
		if w.ownedByAny(c) {
			owned = append(owned, c)
		} else if len(w.pendingSpenders(c.Op)) == 0 {
			foreign = append(foreign, c)
		}
	}
	var pendOuts []*Coin
	for _, h := range w.pendingOrder() {
		for i, o := range w.pending[h].TxOut {
			cls, hh, p, tg := classify(o.PkScript)
			if cls != clsStd || o.Value == 0 {
				continue
			}
			op := wire.OutPoint{Hash: h, Index: uint32(i)}
			if len(w.pendingSpenders(op)) > 0 && rapid.IntRange(0, 3).Draw(t, "chainConflict") > 0 {
				continue
			}
			pendOuts = append(pendOuts, &Coin{Op: op, Value: o.Value, Script: o.PkScript, Height: next, Class: cls, Hash: hh, Period: p, Target: tg})
		}
	}
	kinds := []string{}
	if len(owned) > 0 {
		kinds = append(kinds, "spend-own", "spend-own", "spend-own")
	}
	if len(foreign) > 0 {
		kinds = append(kinds, "pay-wallet")
	}
	if len(pendOuts) > 0 {
		kinds = append(kinds, "chain", "chain")
	}
	if len(w.pending) > 0 {
		kinds = append(kinds, "duplicate")
	}
	if len(kinds) == 0 {
		return false
	}
	kind := rapid.SampledFrom(kinds).Draw(t, "mempoolKind")
	var tx *wire.MsgTx
	curValue, curBindingIn := int64(0), false
	walletDest := func() []byte {
		m := w.wallets[rapid.IntRange(0, len(w.wallets)-1).Draw(t, "mpWallet")]
		h := m.issued[rapid.IntRange(0, len(m.issued)-1).Draw(t, "mpAddr")].Hash
		if w.depositsInMempool && rapid.IntRange(0, 2).Draw(t, "mpDeposit") == 0 {
			// pending version of a staking / binding deposit
			if rapid.Bool().Draw(t, "mpStaking") && curValue >= int64(consensus.MinStakingValue) {
				w.flag("pending-staking-deposit")
				return sim.StakingScript(h, consensus.MinFrozenPeriod+uint64(rapid.IntRange(0, 3).Draw(t, "mpPeriod")))
			}
			if !curBindingIn {
				w.bindCounter++
				if next < consensus.MASSIP0002WarmUpHeight {
					tgt := make([]byte, 20)
					tgt[0] = 0xb2
					binary.BigEndian.PutUint64(tgt[12:], w.bindCounter)
					w.flag("pending-binding-deposit")
					return sim.BindingScript(h, tgt)
				}
				if curValue >= 100000000 {
					tgt := make([]byte, 22)
					tgt[0] = 0xb3
					binary.BigEndian.PutUint64(tgt[12:], w.bindCounter)
					tgt[21] = 24
					w.flag("pending-binding-deposit")
					return sim.BindingScript(h, tgt)
				}
			}
		}
		return sim.StdScript(h)
	}
	build := func(c *Coin, toWallet bool) *wire.MsgTx {
		x := wire.NewMsgTx()
		x.AddTxIn(sim.Spend(c.Op.Hash, c.Op.Index, requiredSequence(c)))
		fee := int64(rapid.IntRange(0, 500).Draw(t, "mpFee"))
		if fee >= c.Value {
			fee = 0
		}
		v := c.Value - fee
		curValue, curBindingIn = v, c.Class == clsBindingOld || c.Class == clsBindingNew
		if rapid.Bool().Draw(t, "split") && v > 2 {
			a := v * int64(rapid.IntRange(1, 9).Draw(t, "mpShare")) / 10
			if a == 0 {
				a = 1
			}
			curValue = a
			x.AddTxOut(wire.NewTxOut(a, walletDest()))
			x.AddTxOut(wire.NewTxOut(v-a, sim.StdScript(w.strangers[rapid.IntRange(0, len(w.strangers)-1).Draw(t, "mpStranger")])))
		} else if toWallet || rapid.Bool().Draw(t, "mpToWallet") {
			x.AddTxOut(wire.NewTxOut(v, walletDest()))
		} else {
			x.AddTxOut(wire.NewTxOut(v, sim.StdScript(w.strangers[rapid.IntRange(0, len(w.strangers)-1).Draw(t, "mpStranger")])))
		}
		x.Payload = []byte{byte(rapid.IntRange(0, 255).Draw(t, "mpNonce"))}
		return x
	}
	switch kind {
	case "spend-own":
		c := owned[rapid.IntRange(0, len(owned)-1).Draw(t, "mpCoin")]
		if len(w.pendingSpenders(c.Op)) > 0 {
			w.flag("pending-conflict-delivered")
		}
		tx = build(c, false)
	case "pay-wallet":
		tx = build(foreign[rapid.IntRange(0, len(foreign)-1).Draw(t, "mpCoin")], true)
	case "chain":
		c := pendOuts[rapid.IntRange(0, len(pendOuts)-1).Draw(t, "mpCoin")]
		tx = build(c, !w.ownedByAny(c))
		w.flag("pending-chain")
	case "duplicate":
		hs := w.pendingOrder()
		tx = w.pending[hs[rapid.IntRange(0, len(hs)-1).Draw(t, "dup")]]
		w.flag("pending-duplicate-delivered")
	}
	err := w.env.H.VerifProcessTx(tx)
	h := tx.TxHash()
	w.everSeen[h] = tx
	w.logf("mempool %s %s -> %v", kind, h.String()[:10], err)
	if err != nil && kind == "chain" {
		// the wallet accepts an unconfirmed transaction only if it can resolve every input on the chain or
		// in its own pending store; after a wallet removal a parent that mattered only to the removed
		// wallet is legitimately gone from that store
		for _, in := range tx.TxIn {
			ph := in.PreviousOutPoint.Hash
			if _, isPending := w.pending[ph]; isPending {
				if _, perr := w.env.W.VerifUnminedTx(&ph); perr != nil {
					w.logf("  (parent %s is not in the wallet's pending store: refusal accepted)", ph.String()[:10])
					delete(w.pending, ph)
					return true
				}
			}
		}
	}
	if err != nil && kind != "duplicate" {
		// (a re-delivered pending transaction may be answered with an error as long as nothing changes,
		// which the audits check)
		t.Fatalf("unconfirmed transaction %s (%s) whose inputs are all known was refused: %v\n  %s", h.String()[:10], kind, err, w.journalTail(20))
	}
	if w.txRelevant(tx, false) {
		w.pending[h] = tx
	}
	return true
}

// readBucket returns all entries of a nested bucket of the wallet database.
func (w *World) readBucket(t *rapid.T, path ...string) map[string][]byte {
	out := map[string][]byte{}
	err := mwdb.View(w.env.DB, func(rtx mwdb.ReadTransaction) error {
		b := rtx.TopLevelBucket(path[0])
		for _, p := range path[1:] {
			if b == nil {
				break
			}
			b = b.Bucket(p)
		}
		if b == nil {
			return fmt.Errorf("bucket %v not found", path)
		}
		es, err := b.GetByPrefix(nil)
		if err != nil {
			return err
		}
		for _, e := range es {
			out[string(e.Key)] = e.Value
		}
		return nil
	})
	if err != nil {
		t.Fatalf("HARNESS: read bucket %v: %v", path, err)
	}
	return out
}

// auditPending compares the pending model with everything the wallet exposes about pending transactions.
func (w *World) auditPending(t *rapid.T) {
	// (1) the pending store, read back and decoded
	store := w.readBucket(t, "t", "m")
	for k, v := range store {
		var h wire.Hash
		copy(h[:], k)
		want, ok := w.pending[h]
		if !ok {
			t.Fatalf("pending store holds %s which is not an unconfirmed relevant transaction any more (confirmed, conflicted or never accepted)\n  %s", h.String()[:10], w.journalTail(400))
		}
		if len(v) < 8 {
			t.Fatalf("pending entry %s: short value (%d bytes)", h.String()[:10], len(v))
		}
		var got wire.MsgTx
		if err := got.SetBytes(v[8:], wire.DB); err != nil {
			t.Fatalf("pending entry %s cannot be read back: %v (value %d bytes)\n  %s", h.String()[:10], err, len(v), w.journalTail(25))
		}
		if got.TxHash() != want.TxHash() {
			t.Fatalf("pending entry %s decodes to another transaction %s", h.String()[:10], got.TxHash().String()[:10])
		}
		if tx, err := w.env.W.VerifUnminedTx(&h); err != nil || tx.TxHash() != h {
			t.Fatalf("pending transaction %s not readable through the store API: %v", h.String()[:10], err)
		}
	}
	for _, h := range w.pendingOrder() {
		if _, ok := store[string(h[:])]; !ok {
			tx := w.pending[h]
			var sb strings.Builder
			for i, in := range tx.TxIn {
				own := "-"
				if s := w.prevScript(in.PreviousOutPoint); s != nil {
					_, hh, _, _ := classify(s)
					for wi, m := range w.wallets {
						if m.owns[hh] {
							own = fmt.Sprintf("wallet %d", wi)
						}
					}
				}
				fmt.Fprintf(&sb, "    in %d: %s:%d owner %s\n", i, in.PreviousOutPoint.Hash.String()[:10], in.PreviousOutPoint.Index, own)
			}
			for i, o := range tx.TxOut {
				own := "-"
				_, hh, _, _ := classify(o.PkScript)
				for wi, m := range w.wallets {
					if m.owns[hh] {
						own = fmt.Sprintf("wallet %d", wi)
					}
				}
				fmt.Fprintf(&sb, "    out %d: %d owner %s\n", i, o.Value, own)
			}
			t.Fatalf("transaction %s is known, relevant and unconfirmed but missing from the pending store\n%s  %s", h.String()[:10], sb.String(), w.journalTail(25))
		}
	}
	// (2) spent_by_unmined flag of every wallet coin + residue in pending-input / pending-credit stores
	view := w.chainView(t)
	spentByPending := map[wire.OutPoint]bool{}
	for _, tx := range w.pending {
		for _, in := range tx.TxIn {
			spentByPending[in.PreviousOutPoint] = true
		}
	}
	for wi, m := range w.wallets {
		ready, removing, exists := w.walletStatus(t, m.id)
		if !exists || !ready || removing {
			continue
		}
		if _, err := w.env.W.UseWallet(m.id); err != nil {
			t.Fatalf("UseWallet: %v", err)
		}
		utx, err := w.env.W.GetUtxo(nil)
		if err != nil {
			t.Fatalf("GetUtxo: %v", err)
		}
		flagged := map[wire.OutPoint]bool{}
		for _, list := range utx {
			for _, u := range list {
				var hh wire.Hash
				hhFromStr(&hh, u.TxId)
				op := wire.OutPoint{Hash: hh, Index: u.Vout}
				flagged[op] = u.SpentByUnmined
				if u.SpentByUnmined != spentByPending[op] {
					t.Fatalf("wallet %d: coin %s:%d spent_by_unmined=%v, but pending transactions spending it: %v\n  %s\n%s", wi, u.TxId[:10], u.Vout, u.SpentByUnmined, w.pendingSpenders(op), w.journalTail(25), w.dumpPending(t))
				}
			}
		}
		// (3) automatic selection never takes a coin spent by a pending transaction
		coins := walletCoins(view, m.owns)
		if len(spentByPending) > 0 && len(coins) > 0 && rapid.IntRange(0, 2).Draw(t, "tryCreate") == 0 {
			dest, _ := massutil.NewAddressWitnessScriptHash(w.strangers[0][:], config.ChainParams)
			amount, _ := massutil.NewAmountFromInt(int64(rapid.IntRange(1, 40).Draw(t, "createAmt")) * 10000000)
			hexTx, _, err := w.env.W.AutoCreateRawTransaction(map[string]massutil.Amount{dest.EncodeAddress(): amount}, 0, massutil.ZeroAmount(), "", "", nil)
			if err == nil {
				raw, _ := hex.DecodeString(hexTx)
				var mtx wire.MsgTx
				if err := mtx.SetBytes(raw, wire.Packet); err != nil {
					t.Fatalf("AutoCreateRawTransaction returned undecodable hex: %v", err)
				}
				for _, in := range mtx.TxIn {
					if spentByPending[in.PreviousOutPoint] {
						t.Fatalf("wallet %d: AutoCreateRawTransaction selected %v which a pending transaction (%v) already spends\n  %s", wi, in.PreviousOutPoint, w.pendingSpenders(in.PreviousOutPoint), w.journalTail(25))
					}
				}
				w.env.W.ClearUsedUTXOMark(&mtx)
				w.flag("autocreate-with-pending")
			}
		}
	}
	// (4) no residue: pending-credit keys belong to pending transactions
	for k := range w.readBucket(t, "u", "mc") {
		var h wire.Hash
		copy(h[:], k[:32])
		if _, ok := w.pending[h]; !ok {
			t.Fatalf("pending-credit store still holds an output of %s which is no longer pending\n  %s", h.String()[:10], w.journalTail(25))
		}
	}
	for k, v := range w.readBucket(t, "u", "mi") {
		for off := 0; off+32 <= len(v); off += 32 {
			var h wire.Hash
			copy(h[:], v[off:off+32])
			if _, ok := w.pending[h]; !ok {
				t.Fatalf("pending-input store says outpoint %x is spent by %s which is no longer pending\n  %s", k, h.String()[:10], w.journalTail(25))
			}
		}
	}
}

func propC09(t *rapid.T) {
	useProfile(profSmall)
	nW := rapid.IntRange(1, 2).Draw(t, "wallets")
	if rapid.IntRange(0, 3).Draw(t, "withInternal") == 0 {
		// wallets restored with internal (change-branch) addresses, which receive coins like the others
		worldInternalHint = uint32(rapid.IntRange(1, 2).Draw(t, "internalIndex"))
	}
	w := newWorld(t, nW, 20, nil)
	worldInternalHint = 0
	defer w.close()
	w.allowBinding = false
	w.c09mode = true
	// fund the wallets: a few blocks with coinbases to wallets, matured
	for i := 0; i < 6; i++ {
		w.withChainChange(t, func() { w.actMine(t, true) })
	}
	t.Repeat(map[string]func(*rapid.T){
		"newAddress": func(t *rapid.T) {
			m := w.wallets[rapid.IntRange(0, len(w.wallets)-1).Draw(t, "wallet")]
			if len(m.issued) >= 4 {
				t.Skip("enough addresses")
			}
			if _, err := w.issueAddress(t, m, massutil.AddressClassWitnessV0); err != nil {
				t.Fatalf("NewAddress: %v", err)
			}
		},
		"mempool":  w.actMempool,
		"mempool2": w.actMempool,
		"mempool3": w.actMempool,
		"mine":     func(t *rapid.T) { w.withChainChange(t, func() { w.actMine(t, true) }) },
		"mine2":    func(t *rapid.T) { w.withChainChange(t, func() { w.actMine(t, true) }) },
		"reorg":    func(t *rapid.T) { w.withChainChange(t, func() { w.actReorg(t) }) },
		"": func(t *rapid.T) {
			w.auditPending(t)
			w.auditLedger(t)
		},
	})
	flags := w.sortedFlags()
	nt := w.flags["pending-confirmed"] || w.flags["pending-conflicted"] || w.flags["pending-unconfirmed-by-reorg"]
	c09.Case(hkey(strings.Join(w.journal, "\n")), nt, flags...)
	if nt {
		c09.Sample(strings.Join(flags, "+"), 1, w.journal)
	}
}

func TestC09(t *testing.T) {
	t.Run("pending", rapid.MakeCheck(propC09))
}

func (w *World) dumpPending(t *rapid.T) string {
	var sb strings.Builder
	for _, h := range w.pendingOrder() {
		tx := w.pending[h]
		fmt.Fprintf(&sb, "    pending %s:", h.String()[:10])
		for _, in := range tx.TxIn {
			fmt.Fprintf(&sb, " in=%s:%d", in.PreviousOutPoint.Hash.String()[:10], in.PreviousOutPoint.Index)
		}
		for i, o := range tx.TxOut {
			fmt.Fprintf(&sb, " out%d=%d(own=%v)", i, o.Value, w.ownerOfScript(o.PkScript))
		}
		sb.WriteString("\n")
	}
	for k, v := range w.readBucket(t, "u", "mi") {
		var h wire.Hash
		copy(h[:], k[:32])
		fmt.Fprintf(&sb, "    mi %s:%x ->", h.String()[:10], k[32:])
		for off := 0; off+32 <= len(v); off += 32 {
			var s wire.Hash
			copy(s[:], v[off:off+32])
			fmt.Fprintf(&sb, " %s", s.String()[:10])
		}
		sb.WriteString("\n")
	}
	return sb.String()
}
