//go:build verif

package checks

import (
	"bytes"
	"encoding/hex"
	"fmt"
	"github.com/massnetorg/mass-core/consensus"
	"math"
	"os"
	"runtime"
	"runtime/debug"
	"sort"
	"strconv"
	"strings"
	"sync"
	"sync/atomic"
	"testing"
	"time"

	"github.com/massnetorg/mass-core/massutil"
	"github.com/massnetorg/mass-core/wire"
	"massnet.org/mass-wallet/config"
	"pgregory.net/rapid"

	"massnet.org/mass-wallet/masswallet"
	mwdb "massnet.org/mass-wallet/masswallet/db"
	"massnet.org/mass-wallet/masswallet/keystore"
	"verifharness/ev"
	"verifharness/guard"
	"verifharness/sim"
	"verifharness/xdb"
)

// ---- C17 (a): a query racing with block commits answers as of ONE block boundary --------------

var c17 = ev.Open("C17", "exploration",
	"(a) two wallet instances R and P watch the same simulated node with the same wallets through a generated history (payments of all "+
		"classes, reorganisations). 1-3 further chain changes (blocks with payments; optionally a reorganisation first) are attached to the node "+
		"and announced but not processed. P processes them one by one and records, at every boundary 0..j, the wallet's own answers to the "+
		"queries (WalletBalance with detail for confs 0/1/drawn, AddressBalance, GetUtxo) and the model's spendable coin set. On R the query "+
		"runs in its own goroutine; the interposed database parks it before its i-th read (i drawn in 1..reads-of-that-query) and the harness, "+
		"playing the follower, commits 1..j of the announced changes before letting it continue. Oracle: the answer equals P's answer at ONE of "+
		"the boundaries between the query's start and its end; for AutoCreateRawTransaction every selected input must be spendable (mature, "+
		"unlocked, unspent, standard) at one common boundary and no input may repeat. Non-trivial = the query was parked and at least one commit "+
		"that changes the wallet's coins landed inside it, distinct by (history, query, i, commits). "+
		"(b) see the race job: the same kinds of operations run concurrently under the Go race detector.")

func goid() int64 {
	var buf [64]byte
	n := runtime.Stack(buf[:], false)
	f := bytes.Fields(buf[:n])
	id, _ := strconv.ParseInt(string(f[1]), 10, 64)
	return id
}

type c17query struct {
	name string
	run  func(wm *masswallet.WalletManager) (string, *wire.MsgTx, error)
}

func fmtBalance(wb *masswallet.WalletBalance) string {
	return fmt.Sprintf("total=%d spendable=%d wstaking=%d wbinding=%d", amt(wb.Total), amt(wb.Spendable), amt(wb.WithdrawableStaking), amt(wb.WithdrawableBinding))
}

var c17builders = map[string]bool{"AutoCreateRawTransaction": true, "EstimateTxFee": true, "CreateStakingTransaction": true, "CreateBindingTransaction": true}

func c17queries(t *rapid.T, w *World, m *mwallet) []c17query {
	confs := uint32(rapid.IntRange(2, 6).Draw(t, "qconfs"))
	var addrs []string
	for _, a := range m.issued {
		addrs = append(addrs, a.Std)
	}
	dest, _ := massutil.NewAddressWitnessScriptHash(w.strangers[0][:], config.ChainParams)
	amount := amountOf(int64(rapid.IntRange(1, 60).Draw(t, "createAmt")) * 10000000)
	qs := []c17query{
		{"WalletBalance(0)", func(wm *masswallet.WalletManager) (string, *wire.MsgTx, error) {
			wb, err := wm.WalletBalance(0, true)
			if err != nil {
				return "", nil, err
			}
			return fmtBalance(wb), nil, nil
		}},
		{"WalletBalance(1)", func(wm *masswallet.WalletManager) (string, *wire.MsgTx, error) {
			wb, err := wm.WalletBalance(1, true)
			if err != nil {
				return "", nil, err
			}
			return fmtBalance(wb), nil, nil
		}},
		{fmt.Sprintf("WalletBalance(%d)", confs), func(wm *masswallet.WalletManager) (string, *wire.MsgTx, error) {
			wb, err := wm.WalletBalance(confs, true)
			if err != nil {
				return "", nil, err
			}
			return fmtBalance(wb), nil, nil
		}},
		{"AddressBalance", func(wm *masswallet.WalletManager) (string, *wire.MsgTx, error) {
			abs, err := wm.AddressBalance(1, addrs)
			if err != nil {
				return "", nil, err
			}
			var out []string
			for _, ab := range abs {
				out = append(out, fmt.Sprintf("%s total=%d spendable=%d wstaking=%d wbinding=%d", ab.Address, amt(ab.Total), amt(ab.Spendable), amt(ab.WithdrawableStaking), amt(ab.WithdrawableBinding)))
			}
			sort.Strings(out)
			return strings.Join(out, "\n"), nil, nil
		}},
		{fmt.Sprintf("AddressBalance(%d)", confs), func(wm *masswallet.WalletManager) (string, *wire.MsgTx, error) {
			// with a confirmation threshold above one the answer depends on the tip height the coins are
			// measured against: a coin one confirmation short and spent by the next block is counted at
			// neither boundary
			abs, err := wm.AddressBalance(confs, addrs)
			if err != nil {
				return "", nil, err
			}
			var out []string
			for _, ab := range abs {
				out = append(out, fmt.Sprintf("%s total=%d spendable=%d wstaking=%d wbinding=%d", ab.Address, amt(ab.Total), amt(ab.Spendable), amt(ab.WithdrawableStaking), amt(ab.WithdrawableBinding)))
			}
			sort.Strings(out)
			return strings.Join(out, "\n"), nil, nil
		}},
		{"GetUtxo", func(wm *masswallet.WalletManager) (string, *wire.MsgTx, error) {
			utx, err := wm.GetUtxo(nil)
			if err != nil {
				return "", nil, err
			}
			var out []string
			for addr, list := range utx {
				for _, u := range list {
					out = append(out, fmt.Sprintf("%s %s:%d amount=%d height=%d confs=%d maturity=%d", addr, u.TxId, u.Vout, amt(u.Amount), u.BlockHeight, u.Confirmations, u.Maturity))
				}
			}
			sort.Strings(out)
			return strings.Join(out, "\n"), nil, nil
		}},
		{"AutoCreateRawTransaction", func(wm *masswallet.WalletManager) (string, *wire.MsgTx, error) {
			hexTx, _, err := wm.AutoCreateRawTransaction(map[string]massutil.Amount{dest.EncodeAddress(): amount}, 0, massutil.ZeroAmount(), "", "", nil)
			if err != nil {
				return "error: " + err.Error(), nil, nil // running out of funds is a legitimate answer
			}
			raw, _ := hex.DecodeString(hexTx)
			var mtx wire.MsgTx
			if err := mtx.SetBytes(raw, wire.Packet); err != nil {
				return "", nil, fmt.Errorf("undecodable transaction: %v", err)
			}
			wm.ClearUsedUTXOMark(&mtx)
			return "tx", &mtx, nil
		}},
	}
	// the other transaction builders reach the coin selection through code paths of their own
	decode := func(wm *masswallet.WalletManager, hexTx string, err error) (string, *wire.MsgTx, error) {
		if err != nil {
			return "error: " + err.Error(), nil, nil
		}
		raw, _ := hex.DecodeString(hexTx)
		var mtx wire.MsgTx
		if err := mtx.SetBytes(raw, wire.Packet); err != nil {
			return "", nil, fmt.Errorf("undecodable transaction: %v", err)
		}
		wm.ClearUsedUTXOMark(&mtx)
		return "tx", &mtx, nil
	}
	if len(m.issued) > 0 {
		ia := m.issued[0]
		stk, _ := massutil.NewAddressStakingScriptHash(ia.Hash[:], config.ChainParams)
		holder, _ := massutil.NewAddressWitnessScriptHash(ia.Hash[:], config.ChainParams)
		tb := make([]byte, 20)
		tb[0], tb[19] = 0xc1, byte(len(w.journal))
		target, _ := massutil.NewAddressPubKeyHash(tb, config.ChainParams)
		qs = append(qs,
			c17query{"EstimateTxFee", func(wm *masswallet.WalletManager) (string, *wire.MsgTx, error) {
				mtx, _, err := wm.EstimateTxFee(map[string]massutil.Amount{dest.EncodeAddress(): amount}, 0, massutil.ZeroAmount(), "", "", nil)
				if err != nil {
					return "error: " + err.Error(), nil, nil
				}
				return "tx", mtx, nil
			}},
			c17query{"CreateStakingTransaction", func(wm *masswallet.WalletManager) (string, *wire.MsgTx, error) {
				hexTx, _, err := wm.CreateStakingTransaction("", []*masswallet.StakingTxOut{{Address: stk.EncodeAddress(), FrozenPeriod: uint32(consensus.MinFrozenPeriod), Amount: amountOf(int64(consensus.MinStakingValue))}}, 0, massutil.ZeroAmount())
				return decode(wm, hexTx, err)
			}},
			c17query{"CreateBindingTransaction", func(wm *masswallet.WalletManager) (string, *wire.MsgTx, error) {
				hexTx, _, err := wm.CreateBindingTransaction("", massutil.ZeroAmount(), []*masswallet.BindingOutput{{Holder: holder, BindingTarget: target, Amount: amount}})
				return decode(wm, hexTx, err)
			}})
	}
	return qs
}

// spendableSet is the model's set of coins of wallet m that the block after tip may spend.
func spendableSet(v *utxoView, owns map[[32]byte]bool, tip uint64) map[wire.OutPoint]bool {
	out := map[wire.OutPoint]bool{}
	for _, c := range walletCoins(v, owns) {
		if c.Class == clsStd && c.Value > 0 && tip-c.Height+1 >= requiredConfs(c) {
			out[c.Op] = true
		}
	}
	return out
}

func propC17a(t *rapid.T) {
	useProfile(profSmall)
	ctl := xdb.NewCtl()
	w := newWorld(t, rapid.IntRange(1, 2).Draw(t, "wallets"), 20, func(d mwdb.DB) mwdb.DB { return xdb.Wrap(d, ctl) })
	defer w.close()
	w.allowBinding = rapid.Bool().Draw(t, "bindings")
	// reference instance P with the same wallets
	P, err := sim.NewEnv(w.node, 20, nil)
	if err != nil {
		t.Fatalf("HARNESS: %v", err)
	}
	defer P.Close()
	if err := P.StartStepped(); err != nil {
		t.Fatalf("HARNESS: %v", err)
	}
	for _, m := range w.wallets {
		if _, err := P.W.ImportWalletWithMnemonic(&keystore.WalletParams{Mnemonic: m.keys.Mnemonic, PrivatePassphrase: []byte(m.keys.Pass), Remarks: "p", AddressGapLimit: 20}); err != nil {
			t.Fatalf("HARNESS: import into reference instance: %v", err)
		}
		for n := 0; n < 100; n++ {
			if ok, _ := P.W.CheckReady(m.id); ok {
				break
			}
			if _, err := P.ServeWorker(20 * time.Second); err != nil {
				t.Fatalf("HARNESS: %v", err)
			}
		}
	}
	w.peers = append(w.peers, P)
	deliverP := func() {
		for len(P.Queue) > 0 {
			P.Deliver()
		}
	}
	// history
	n := rapid.IntRange(4, 14).Draw(t, "history")
	for i := 0; i < n; i++ {
		switch rapid.SampledFrom([]string{"mine", "mine", "mine", "mine", "reorg", "addr"}).Draw(t, "hact") {
		case "mine":
			w.actMine(t, true)
		case "reorg":
			if w.node.Height() >= 1 {
				w.actReorg(t)
			}
		case "addr":
			m := w.wallets[rapid.IntRange(0, len(w.wallets)-1).Draw(t, "aw")]
			if len(m.issued) < 4 {
				class := uint16(massutil.AddressClassWitnessV0)
				if rapid.IntRange(0, 2).Draw(t, "stk") == 0 {
					class = massutil.AddressClassWitnessStaking
				}
				a, err := w.issueAddress(t, m, class)
				if err != nil {
					t.Fatalf("NewAddress: %v", err)
				}
				// same address on P
				if _, err := P.W.UseWallet(m.id); err != nil {
					t.Fatalf("HARNESS: %v", err)
				}
				b, err := P.W.NewAddress(class)
				if err != nil || a != b {
					t.Fatalf("HARNESS: reference instance issued %q (%v), racing instance %q", b, err, a)
				}
			}
		}
	}
	w.deliverAll(t)
	deliverP()
	w.auditLedger(t)

	m := w.wallets[rapid.IntRange(0, len(w.wallets)-1).Draw(t, "qw")]
	// boundary 0 model
	type boundary struct {
		tip   uint64
		spend map[wire.OutPoint]bool
		coins string
	}
	coinSig := func(v *utxoView) string {
		var out []string
		for _, c := range walletCoins(v, m.owns) {
			out = append(out, fmt.Sprintf("%v:%d", c.Op.Hash, c.Op.Index))
		}
		sort.Strings(out)
		return strings.Join(out, ",")
	}
	var bounds []boundary
	v0 := w.chainView(t)
	bounds = append(bounds, boundary{w.node.Height(), spendableSet(v0, m.owns, w.node.Height()), coinSig(v0)})

	// pending chain changes: attached + announced, not processed
	j := rapid.IntRange(1, 3).Draw(t, "pending")
	withReorg := rapid.IntRange(0, 3).Draw(t, "pendingReorg") == 0 && w.node.Height() >= 2
	for k := 0; k < j; k++ {
		if k == 0 && withReorg {
			w.actReorg(t)
		} else {
			w.actMine(t, true)
		}
		v, err := foldChain(w.node.Chain)
		if err != nil {
			t.Fatalf("HARNESS: %v", err)
		}
		bounds = append(bounds, boundary{w.node.Height(), spendableSet(v, m.owns, w.node.Height()), coinSig(v)})
	}
	// with a reorg all queued announcements of the old branch were replaced by one; count what is queued
	nq := len(w.env.Queue)
	if nq == 0 {
		return
	}
	if nq != len(P.Queue) {
		t.Fatalf("HARNESS: queues differ (%d vs %d)", nq, len(P.Queue))
	}
	// each queued announcement k moves the wallet to the node chain cut at its height
	qb := []boundary{bounds[0]}
	for _, msg := range w.env.Queue {
		h := msg.Header.Height
		v, err := foldChain(w.node.Chain[:h+1])
		if err != nil {
			t.Fatalf("HARNESS: %v", err)
		}
		qb = append(qb, boundary{h, spendableSet(v, m.owns, h), coinSig(v)})
	}

	qs := c17queries(t, w, m)
	q := qs[rapid.IntRange(0, len(qs)-1).Draw(t, "query")]
	if _, err := w.env.W.UseWallet(m.id); err != nil {
		t.Fatalf("UseWallet: %v", err)
	}
	if _, err := P.W.UseWallet(m.id); err != nil {
		t.Fatalf("HARNESS: %v", err)
	}
	// reference answers at every boundary (P)
	var refs []string
	a0, _, err := q.run(P.W)
	if err != nil {
		t.Fatalf("%s on the quiet reference instance: %v", q.name, err)
	}
	refs = append(refs, a0)
	for len(P.Queue) > 0 {
		if _, err := P.Deliver(); err != nil {
			t.Fatalf("HARNESS: reference instance cannot process the announced block: %v", err)
		}
		a, _, err := q.run(P.W)
		if err != nil {
			t.Fatalf("%s on the quiet reference instance: %v", q.name, err)
		}
		refs = append(refs, a)
	}
	// dry run on R: how many database reads does the query make at boundary 0?
	me := make(chan int64, 1)
	filter := func() bool { return false }
	var qg int64
	filter = func() bool { return goid() == qg }
	ctl.CountReadsOnly(filter)
	dry := make(chan string, 1)
	go func() {
		qg = goid()
		me <- qg
		a, _, err := q.run(w.env.W)
		if err != nil {
			a = "ERR " + err.Error()
		}
		dry <- a
	}()
	<-me
	adry := <-dry
	reads := ctl.Reads()
	if adry != refs[0] && !c17builders[q.name] {
		t.Fatalf("HARNESS: the two instances disagree while quiet: %s gives\n%s\nvs\n%s", q.name, adry, refs[0])
	}
	if reads < 2 {
		return
	}
	pauseAt := int64(rapid.IntRange(1, int(reads)).Draw(t, "pauseAtRead"))
	commits := rapid.IntRange(1, nq).Draw(t, "commitsInside")
	ctl.ArmPause(pauseAt, filter)
	type res struct {
		a   string
		tx  *wire.MsgTx
		err error
	}
	done := make(chan res, 1)
	go func() {
		qg = goid()
		me <- qg
		a, tx, err := q.run(w.env.W)
		done <- res{a, tx, err}
	}()
	<-me
	parked := false
	var r res
	select {
	case <-ctl.Paused:
		parked = true
		for c := 0; c < commits; c++ {
			o := guard.Call(30*time.Second, func() {
				if _, err := w.env.Deliver(); err != nil {
					w.logf("deliver inside the query -> %v", err)
				}
			})
			if o.Kind != "done" {
				ctl.Resume <- struct{}{}
				t.Fatalf("HARNESS-ERROR: block processing did not finish while a query was parked (%s)", o.Kind)
			}
		}
		ctl.Resume <- struct{}{}
		r = <-done
	case r = <-done:
	case <-time.After(60 * time.Second):
		t.Fatalf("HARNESS-ERROR: query neither parked nor finished")
	}
	ctl.DisarmPause()
	if r.err != nil {
		t.Fatalf("%s failed while %d block commit(s) landed before its read #%d: %v", q.name, commits, pauseAt, r.err)
	}
	last := 0
	if parked {
		last = commits
	}
	ok := false
	if c17builders[q.name] {
		if r.tx == nil {
			// an error answer: legitimate if the reference gives the same error at one boundary
			for k := 0; k <= last; k++ {
				ok = ok || refs[k] == r.a
			}
			if !ok {
				// "insufficient" may legitimately appear when funds were short at a boundary; accept any refusal that P shows at some boundary
				for k := 0; k <= last; k++ {
					ok = ok || strings.HasPrefix(refs[k], "error:")
				}
			}
			if !ok {
				t.Fatalf("%s refused (%s) although the quiet instance builds a transaction at every boundary 0..%d", q.name, r.a, last)
			}
		} else {
			seen := map[wire.OutPoint]bool{}
			for _, in := range r.tx.TxIn {
				if seen[in.PreviousOutPoint] {
					t.Fatalf("%s used input %v twice (commits inside: %d, parked before read %d)", q.name, in.PreviousOutPoint, commits, pauseAt)
				}
				seen[in.PreviousOutPoint] = true
			}
			for k := 0; k <= last && !ok; k++ {
				all := true
				for op := range seen {
					all = all && qb[k].spend[op]
				}
				ok = all
			}
			if !ok {
				var sb strings.Builder
				for op := range seen {
					fmt.Fprintf(&sb, "    input %v:%d spendable at boundary:", op.Hash.String()[:12], op.Index)
					for k := 0; k <= last; k++ {
						fmt.Fprintf(&sb, " %d(h=%d)=%v", k, qb[k].tip, qb[k].spend[op])
					}
					sb.WriteString("\n")
				}
				t.Fatalf("%s, parked before its database read #%d of %d while %d block commit(s) landed: the selected inputs are not all spendable at any single block boundary\n%s  history:\n  %s",
					q.name, pauseAt, reads, commits, sb.String(), w.journalTail(20))
			}
		}
	} else {
		for k := 0; k <= last; k++ {
			ok = ok || refs[k] == r.a
		}
		if !ok {
			var sb strings.Builder
			for k := 0; k <= last; k++ {
				fmt.Fprintf(&sb, "  answer at boundary %d (height %d):\n    %s\n", k, qb[k].tip, strings.ReplaceAll(refs[k], "\n", "\n    "))
			}
			t.Fatalf("%s, parked before its database read #%d of %d while %d block commit(s) landed, answered\n    %s\nwhich is the answer at no single block boundary:\n%s  history:\n  %s",
				q.name, pauseAt, reads, commits, strings.ReplaceAll(r.a, "\n", "\n    "), sb.String(), w.journalTail(20))
		}
	}
	changed := false
	for k := 1; k <= last; k++ {
		changed = changed || qb[k].coins != qb[0].coins
	}
	c17.Case(hkey(strings.Join(w.journal, "\n"), q.name, pauseAt, commits), parked && changed, "query:"+q.name, fmt.Sprintf("commits-inside:%d", last), fmt.Sprintf("parked:%v", parked), fmt.Sprintf("coins-changed:%v", changed))
	if parked && changed {
		c17.Sample(q.name, 2, map[string]interface{}{"query": q.name, "parked_before_read": pauseAt, "reads": reads, "commits_inside": commits, "answer": r.a, "history": w.journal})
	}
	// leave both instances in the same state for the deferred cleanup
	w.deliverAll(t)
}

func TestC17(t *testing.T) {
	t.Run("boundary", rapid.MakeCheck(propC17a))
}

// ---- C17 (b): the same operations run concurrently under the race detector --------------------

// propC17b starts the real service goroutines and runs, concurrently: the chain follower fed with
// generated blocks / reorganisations, three API clients cycling through the query and
// transaction-building calls (each selecting wallets, as separate clients do), and a client that
// imports a further wallet and removes it again. The oracle is the Go race detector (the job is
// built with -race) plus "no panic / fatal error"; answers are not compared here (part (a) does).
func propC17b(t *rapid.T) {
	useProfile(profSmall)
	// the database may fail now and then (commits only), so that error paths - which repair in-memory
	// caches - run concurrently with everything else
	ctl := xdb.NewCtl()
	ctl.FailKinds = map[string]bool{"commit": true}
	var addrClient, failedNewAddr, windows int64
	ctl.FailFilter = func() bool {
		// odd windows hit only the address client's commits, even windows anybody's
		if atomic.LoadInt64(&windows)%2 == 1 {
			return goid() == atomic.LoadInt64(&addrClient)
		}
		return true
	}
	w := newWorld(t, 2, 20, func(d mwdb.DB) mwdb.DB { return xdb.Wrap(d, ctl) })
	phase := "stepped"
	defer func() {
		switch phase {
		case "stepped":
			w.close()
			return
		case "live":
			guard.Call(30*time.Second, func() { w.env.W.Stop() })
		}
		w.closed = true
		w.apiForget()
		os.RemoveAll(w.env.Dir)
		w.node.Close()
	}()
	for i := 0; i < rapid.IntRange(2, 6).Draw(t, "prefix"); i++ {
		w.actMine(t, true)
	}
	// the wallet that will be imported and removed while everything runs has history of its own (two
	// coinbase outputs), so that its rescan records transactions and its removal deletes them again
	lateKeys, _ := sim.EntropyFor(rapid.SliceOfN(rapid.Byte(), 16, 16).Draw(t, "lateEntropy"), "pass9Xzz")
	if lateKeys != nil {
		for i := 0; i < 2; i++ {
			w.mineFixed(t, []*wire.TxOut{wire.NewTxOut(700000000+int64(i), sim.StdScript(lateKeys.Addr(0).ScriptHash))}, nil, true)
		}
	}
	w.deliverAll(t)
	w.finishTasks(t)
	if err := w.env.StopWallet(); err != nil {
		t.Fatalf("HARNESS-ERROR: %v", err)
	}
	phase = "closed"
	if err := w.env.Open(false); err != nil {
		t.Fatalf("HARNESS: reopen: %v", err)
	}
	if err := w.env.W.Start(); err != nil {
		t.Fatalf("WalletManager.Start: %v", err)
	}
	phase = "live"
	W := w.env.W
	H := w.env.H
	// wait for the worker without touching its memory (goroutine dump only)
	for dl := time.Now().Add(10 * time.Second); guard.WorkerState(w.env.HandlerPtr()) != "idle"; {
		if time.Now().After(dl) {
			t.Fatalf("HARNESS-ERROR: worker not idle after start")
		}
		time.Sleep(200 * time.Microsecond)
	}
	ids := []string{w.wallets[0].id, w.wallets[1].id}
	stdAddrs := [][]string{w.wallets[0].stdAddrs(), w.wallets[1].stdAddrs()}
	passes := []string{w.wallets[0].keys.Pass, w.wallets[1].keys.Pass}
	dest, _ := massutil.NewAddressWitnessScriptHash(w.strangers[0][:], config.ChainParams)
	stop := make(chan struct{})
	stopFaults := make(chan struct{})
	fatalsBefore := guard.Fatals()
	var wg sync.WaitGroup
	var calls int64
	panics := make(chan string, 8)
	client := func(seed int) {
		defer wg.Done()
		defer func() {
			if r := recover(); r != nil {
				panics <- fmt.Sprintf("API client panicked: %v\n%s", r, debug.Stack())
			}
		}()
		for n := seed; ; n++ {
			select {
			case <-stop:
				return
			default:
			}
			k := n % len(ids)
			W.UseWallet(ids[k])
			switch n % 9 {
			case 0:
				W.WalletBalance(1, true)
			case 1:
				W.GetUtxo(nil)
			case 2:
				W.AddressBalance(0, stdAddrs[k])
			case 3:
				if hexTx, _, err := W.AutoCreateRawTransaction(map[string]massutil.Amount{dest.EncodeAddress(): amountOf(10000000)}, 0, massutil.ZeroAmount(), "", "", nil); err == nil {
					raw, _ := hex.DecodeString(hexTx)
					var mtx wire.MsgTx
					if mtx.SetBytes(raw, wire.Packet) == nil {
						if n%2 == 0 {
							// sign it (unlocks and re-locks the keystore's private keys)
							W.SignRawTx([]byte(passes[k]), "ALL", &mtx)
						}
						W.ClearUsedUTXOMark(&mtx)
					}
				}
			case 4:
				W.Wallets()
			case 5:
				W.GetAddresses(math.MaxUint16)
			case 6:
				W.GetStakingHistory(false)
				W.GetBindingHistory(false)
			case 7:
				W.GetTxHistory(10, "")
			case 8:
				if n%27 == 8 {
					W.NewAddress(massutil.AddressClassWitnessV0)
				} else if n%27 == 17 {
					W.ExportWallet(ids[k], passes[k])
				}
			}
			atomic.AddInt64(&calls, 1)
		}
	}
	for c := 0; c < 3; c++ {
		wg.Add(1)
		go client(c * 4)
	}
	// a client that only builds and signs (signing looks addresses up in the keystore's address maps,
	// which the address client below extends at the same time)
	wg.Add(1)
	go func() {
		defer wg.Done()
		defer func() {
			if r := recover(); r != nil {
				panics <- fmt.Sprintf("signing client panicked: %v\n%s", r, debug.Stack())
			}
		}()
		for n := 0; ; n++ {
			select {
			case <-stop:
				return
			default:
			}
			k := n % len(ids)
			W.UseWallet(ids[k])
			if hexTx, _, err := W.AutoCreateRawTransaction(map[string]massutil.Amount{dest.EncodeAddress(): amountOf(20000000)}, 0, massutil.ZeroAmount(), "", "", nil); err == nil {
				raw, _ := hex.DecodeString(hexTx)
				var mtx wire.MsgTx
				if mtx.SetBytes(raw, wire.Packet) == nil {
					W.SignRawTx([]byte(passes[k]), "ALL", &mtx)
					W.ClearUsedUTXOMark(&mtx)
				}
			} else {
				time.Sleep(200 * time.Microsecond)
			}
			atomic.AddInt64(&calls, 1)
		}
	}()
	// the address client: asks for new addresses while every few milliseconds one commit fails
	wg.Add(2)
	go func() {
		defer wg.Done()
		defer func() {
			if r := recover(); r != nil {
				panics <- fmt.Sprintf("address client panicked: %v\n%s", r, debug.Stack())
			}
		}()
		atomic.StoreInt64(&addrClient, goid())
		for n := 0; n < 400; n++ {
			select {
			case <-stop:
				return
			default:
			}
			W.UseWallet(ids[n%2])
			if _, err := W.NewAddress(massutil.AddressClassWitnessV0); err != nil && strings.Contains(err.Error(), "injected") {
				atomic.AddInt64(&failedNewAddr, 1)
			}
			time.Sleep(300 * time.Microsecond)
		}
	}()
	go func() {
		defer wg.Done()
		for n := int64(0); ; n++ {
			select {
			case <-stopFaults:
				ctl.SetFail(0, 0, map[string]bool{"commit": true})
				return
			default:
			}
			// for the next millisecond or so the commits of the address client fail (every second window),
			// otherwise the next commit of anybody
			atomic.AddInt64(&windows, 1)
			ctl.SetFail(ctl.Calls()+1+n%5, 40, map[string]bool{"commit": true})
			time.Sleep(1500 * time.Microsecond)
		}
	}()
	// the import / removal client
	var removalAccepted int64
	wg.Add(1)
	go func() {
		defer wg.Done()
		defer func() {
			if r := recover(); r != nil {
				panics <- fmt.Sprintf("import/remove client panicked: %v\n%s", r, debug.Stack())
			}
		}()
		if lateKeys == nil || lateKeys.ID == ids[0] || lateKeys.ID == ids[1] {
			return
		}
		if _, err := W.ImportWalletWithMnemonic(&keystore.WalletParams{Mnemonic: lateKeys.Mnemonic, PrivatePassphrase: []byte(lateKeys.Pass), Remarks: "late", AddressGapLimit: 20}); err != nil {
			return
		}
		for i := 0; i < 2000; i++ {
			if ok, _ := W.CheckReady(lateKeys.ID); ok {
				break
			}
			time.Sleep(500 * time.Microsecond)
		}
		for i := 0; i < 200; i++ {
			if err := W.RemoveWallet(lateKeys.ID, lateKeys.Pass); err == nil {
				atomic.StoreInt64(&removalAccepted, 1)
				return
			}
			time.Sleep(time.Millisecond)
		}
	}()
	// the chain: this goroutine (the only one that draws) mines and announces
	nb := rapid.IntRange(4, 14).Draw(t, "blocks")
	for i := 0; i < nb; i++ {
		if rapid.IntRange(0, 6).Draw(t, "reorgNow") == 0 && w.node.Height() >= 2 {
			w.actReorg(t)
		} else {
			w.actMine(t, true)
		}
		for _, b := range w.env.Queue {
			H.OnBlockConnected(b)
		}
		w.env.Queue = nil
		time.Sleep(time.Duration(rapid.IntRange(0, 3).Draw(t, "gapMs")) * time.Millisecond)
	}
	// blocks keep arriving while the removal of the late wallet runs (its steps delete from the follower's
	// pending-transaction set between two blocks the follower filters)
	for dl := time.Now().Add(3 * time.Second); atomic.LoadInt64(&removalAccepted) == 0 && time.Now().Before(dl); {
		time.Sleep(time.Millisecond)
	}
	if atomic.LoadInt64(&removalAccepted) == 1 {
		for i := 0; i < 6; i++ {
			w.actMine(t, true)
			for _, b := range w.env.Queue {
				H.OnBlockConnected(b)
			}
			w.env.Queue = nil
			time.Sleep(300 * time.Microsecond)
		}
		w.flag("blocks-during-removal")
	}
	// keep the clients busy for a while beside the follower and the worker
	for dl := time.Now().Add(4 * time.Second); atomic.LoadInt64(&calls) < 400 && time.Now().Before(dl); {
		time.Sleep(2 * time.Millisecond)
	}
	// storage works again; let the follower drain (a tip whose commit failed is announced again, as the
	// next block would do), then stop the clients
	close(stopFaults)
	time.Sleep(3 * time.Millisecond)
	H.OnBlockConnected(w.node.Tip().MsgBlock())
	for dl := time.Now().Add(30 * time.Second); ; {
		s, _ := W.SyncedTo()
		if s == w.node.Height() || time.Now().After(dl) {
			break
		}
		time.Sleep(time.Millisecond)
	}
	close(stop)
	waited := make(chan struct{})
	go func() { wg.Wait(); close(waited) }()
	select {
	case <-waited:
	case <-time.After(90 * time.Second):
		if guard.Fatals() > fatalsBefore {
			t.Fatalf("a wallet goroutine ended in a FATAL log exit during the concurrent workload and the API calls behind it never returned\n%s", guard.LastFatal())
		}
		t.Fatalf("API calls of the concurrent workload did not return within 90 s after the workload ended (deadlock?)\n%s", wantedStacks(w.env.HandlerPtr()))
	}
	select {
	case p := <-panics:
		t.Fatalf("%s", p)
	default:
	}
	o := guard.Call(60*time.Second, func() { W.Stop() })
	if o.Kind != "done" {
		t.Fatalf("HARNESS-ERROR: Stop did not return (%s) - see C20", o.Kind)
	}
	phase = "closed"
	nc := atomic.LoadInt64(&calls)
	c17.Case(hkey("race", strings.Join(w.journal, "\n")), nc > 50 && nb >= 4, append([]string{"race-workload", fmt.Sprintf("api-calls>=%d", (nc/100)*100)}, w.sortedFlags()...)...)
	c17.Label("race-api-calls", int(nc))
	c17.Label("race-injected-commit-failures", ctl.InjectedCount())
	c17.Label("race-failed-new-address-calls", int(atomic.LoadInt64(&failedNewAddr)))
}

func TestC17Race(t *testing.T) {
	t.Run("workload", rapid.MakeCheck(propC17b))
	t.Run("pairs", rapid.MakeCheck(propC17Pairs))
}
