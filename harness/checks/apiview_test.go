//go:build verif

package checks

import (
	"context"
	"math/big"
	"os"
	"sort"

	"github.com/massnetorg/mass-core/consensus"
	"github.com/massnetorg/mass-core/massutil"
	"github.com/massnetorg/mass-core/wire"
	"google.golang.org/grpc/codes"
	"google.golang.org/grpc/status"
	"massnet.org/mass-wallet/api"
	pb "massnet.org/mass-wallet/api/proto"
	"massnet.org/mass-wallet/config"
	"massnet.org/mass-wallet/masswallet"
	"pgregory.net/rapid"
	"verifharness/ref"
	"verifharness/sim"
)

// ---- the client-facing layer (package api) as a second view of the same wallet ------------------
//
// The properties speak about what the wallet *reports*; clients see it through api.APIServer, whose
// handlers translate amounts to decimal strings, derive status codes, apply a fee ceiling and an
// unused-address limit of their own. These helpers put the handlers under the same model oracles as
// the WalletManager methods, so that a defect in the translation layer is not invisible.

type apiHandle struct {
	srv *api.APIServer
	wm  *masswallet.WalletManager
}

// apiSrv returns an APIServer bound to the world's current WalletManager (rebuilt after a restart).
// The handle lives in the World itself (a process-wide table would keep every world of the run alive).
func (w *World) apiSrv(t *rapid.T) *api.APIServer {
	if h := w.apiH; h != nil && h.wm == w.env.W {
		return h.srv
	}
	w.apiForget()
	srv, err := api.NewAPIServer(&sim.Server{N: w.node}, w.env.W, func() {}, w.env.Cfg)
	if err != nil {
		t.Fatalf("HARNESS: api server: %v", err)
	}
	w.apiH = &apiHandle{srv: srv, wm: w.env.W}
	return srv
}

// apiForget drops the handle; the gRPC server object inside (never served) is stopped so that
// nothing process-wide keeps it - and through it the wallet - alive.
func (w *World) apiForget() {
	if w.apiH != nil {
		w.apiH.srv.Stop()
		w.apiH = nil
	}
}

// apiCode extracts the API error code (api.ErrAPI...) of a handler error; 0 for nil.
func apiCode(err error) uint32 {
	if err == nil {
		return 0
	}
	if st, ok := status.FromError(err); ok {
		return uint32(st.Code())
	}
	return uint32(codes.Unknown)
}

// apiAmount parses an amount string of a response with the independent decimal reference and checks
// that it is the canonical (shortest plain decimal) form.
func apiAmount(t *rapid.T, what, s string) int64 {
	v, cls := ref.ParseAmount(s)
	if cls != ref.AmountValid || v == nil || !v.IsInt64() {
		t.Fatalf("%s: amount string %q in an API response is not a plain decimal amount", what, s)
	}
	if c := ref.FormatAmount(v); c != s {
		t.Fatalf("%s: amount string %q is not the shortest plain decimal (%q)", what, s, c)
	}
	return v.Int64()
}

func fmtAmount(v int64) string { return ref.FormatAmount(big.NewInt(v)) }

var bg = context.Background()

// under the race detector the simulated node does not publish its height into the shared Blockchain
// object (see sim.Node.publishHeight), which the API handlers read: the API views are off there.
var apiViewsOff = os.Getenv("VERIF_NO_PUBLISH_HEIGHT") != ""

// auditLedgerAPI compares the API's balance / coin listings of the selected wallet with the model.
func (w *World) auditLedgerAPI(t *rapid.T, wi int, m *mwallet, coins []*Coin, tip uint64) {
	if apiViewsOff {
		return
	}
	srv := w.apiSrv(t)
	want0 := balanceOf(coins, tip, 0)
	confs := int32(rapid.SampledFrom([]int{0, 1, 2, 3, 5}).Draw(t, "apiConfs"))
	wb, err := srv.GetWalletBalance(bg, &pb.GetWalletBalanceRequest{RequiredConfirmations: confs, Detail: true})
	if err != nil {
		t.Fatalf("wallet %d: API GetWalletBalance: %v", wi, err)
	}
	want := balanceOf(coins, tip, uint64(confs))
	if wb.WalletId != m.id {
		t.Fatalf("wallet %d: API GetWalletBalance answers for wallet %q, selected is %q", wi, wb.WalletId, m.id)
	}
	got := [4]int64{apiAmount(t, "GetWalletBalance.total", wb.Total), apiAmount(t, "GetWalletBalance.spendable", wb.Detail.Spendable),
		apiAmount(t, "GetWalletBalance.staking", wb.Detail.WithdrawableStaking), apiAmount(t, "GetWalletBalance.binding", wb.Detail.WithdrawableBinding)}
	if got != [4]int64{want0.Total, want.Spendable, want.WStaking, want.WBinding} {
		t.Fatalf("wallet %d tip %d: API GetWalletBalance(confs=%d) total/spendable/staking/binding = %v, the best chain gives %v\n  %s\n%s", wi, tip, confs, got,
			[4]int64{want0.Total, want.Spendable, want.WStaking, want.WBinding}, w.journalTail(25), dumpCoins(coins, tip))
	}
	all := m.stdAddrs()
	var sub []string
	for _, a := range all {
		if rapid.IntRange(0, 2).Draw(t, "apiInSubset") > 0 {
			sub = append(sub, a)
		}
	}
	queried := sub
	if len(sub) == 0 {
		queried = all
	}
	byAddr := func(addr string) []*Coin {
		var h [32]byte
		a, err := massutil.DecodeAddress(addr, config.ChainParams)
		if err != nil || len(a.ScriptAddress()) != 32 {
			t.Fatalf("wallet %d: the API reports under address %q, which does not decode", wi, addr)
		}
		copy(h[:], a.ScriptAddress())
		if !m.owns[h] {
			t.Fatalf("wallet %d: the API reports under address %q, which is not an address of the selected wallet", wi, addr)
		}
		var mine []*Coin
		for _, c := range coins {
			if c.Hash == h {
				mine = append(mine, c)
			}
		}
		return mine
	}
	ab, err := srv.GetAddressBalance(bg, &pb.GetAddressBalanceRequest{RequiredConfirmations: confs, Addresses: sub})
	if err != nil {
		t.Fatalf("wallet %d: API GetAddressBalance: %v", wi, err)
	}
	seenAB := map[string]bool{}
	for _, b := range ab.Balances {
		if seenAB[b.Address] {
			t.Fatalf("wallet %d: API GetAddressBalance lists %s twice", wi, b.Address)
		}
		seenAB[b.Address] = true
		wantB := balanceOf(byAddr(b.Address), tip, uint64(confs))
		g := [4]int64{apiAmount(t, "GetAddressBalance.total", b.Total), apiAmount(t, "GetAddressBalance.spendable", b.Spendable),
			apiAmount(t, "GetAddressBalance.staking", b.WithdrawableStaking), apiAmount(t, "GetAddressBalance.binding", b.WithdrawableBinding)}
		if g != [4]int64{wantB.Total, wantB.Spendable, wantB.WStaking, wantB.WBinding} {
			t.Fatalf("wallet %d addr %s tip %d: API GetAddressBalance(confs=%d) = %v want %v\n  %s", wi, b.Address, tip, confs, g,
				[4]int64{wantB.Total, wantB.Spendable, wantB.WStaking, wantB.WBinding}, w.journalTail(25))
		}
	}
	for _, a := range queried {
		if !seenAB[a] {
			t.Fatalf("wallet %d: API GetAddressBalance has no entry for issued address %s", wi, a)
		}
	}
	ur, err := srv.GetUtxo(bg, &pb.GetUtxoRequest{Addresses: sub})
	if err != nil {
		t.Fatalf("wallet %d: API GetUtxo: %v", wi, err)
	}
	listed := map[string]map[wire.OutPoint]bool{}
	for _, au := range ur.AddressUtxos {
		if listed[au.Address] != nil {
			t.Fatalf("wallet %d: API GetUtxo has two groups for address %s", wi, au.Address)
		}
		listed[au.Address] = map[wire.OutPoint]bool{}
		mine := byAddr(au.Address)
		for _, u := range au.Utxos {
			var hh wire.Hash
			if err := hhFromStr(&hh, u.TxId); err != nil {
				t.Fatalf("API GetUtxo: bad txid %q", u.TxId)
			}
			op := wire.OutPoint{Hash: hh, Index: u.Vout}
			if listed[au.Address][op] {
				t.Fatalf("wallet %d: API GetUtxo lists %v twice under %s", wi, op, au.Address)
			}
			listed[au.Address][op] = true
			var mc *Coin
			for _, c := range mine {
				if c.Op == op {
					mc = c
				}
			}
			if mc == nil {
				t.Fatalf("wallet %d tip %d: API GetUtxo reports %v under %s, the best chain has no such unspent output for that address\n  %s", wi, tip, op, au.Address, w.journalTail(25))
			}
			if v := apiAmount(t, "GetUtxo.amount", u.Amount); v != mc.Value || u.BlockHeight != mc.Height || uint64(u.Confirmations) != tip-mc.Height+1 {
				t.Fatalf("wallet %d: API GetUtxo %v amount/height/confirmations %d/%d/%d, chain says %d/%d/%d", wi, op, v, u.BlockHeight, u.Confirmations, mc.Value, mc.Height, tip-mc.Height+1)
			}
			if (uint64(u.Confirmations) >= uint64(u.Maturity)) != (tip-mc.Height+1 >= requiredConfs(mc)) {
				t.Fatalf("wallet %d tip %d: API GetUtxo %v (%s at %d) confirmations %d maturity %d, consensus requires %d confirmations", wi, tip, op, mc.Class, mc.Height, u.Confirmations, u.Maturity, requiredConfs(mc))
			}
		}
	}
	for _, a := range queried {
		for _, c := range byAddr(a) {
			if c.Value != 0 && !listed[a][c.Op] {
				t.Fatalf("wallet %d tip %d: best chain pays %v (%d, %s) to %s unspent, API GetUtxo does not list it\n  %s", wi, tip, c.Op, c.Value, c.Class, a, w.journalTail(25))
			}
		}
	}
	w.flag("api-ledger-view")
}

// auditHistoriesAPI compares the API's staking / binding history listings (entries and status codes)
// with the deposits the best chain (+ pending set) holds for the wallet.
func (w *World) auditHistoriesAPI(t *rapid.T, wi int, m *mwallet, exp []depositRec, minedOnly bool) {
	if apiViewsOff {
		return
	}
	srv := w.apiSrv(t)
	tip := w.node.Height()
	for _, typ := range []string{"all", ""} {
		wantS, wantB := map[string]depositRec{}, map[string]depositRec{}
		for _, d := range exp {
			if (typ != "all" && d.Spent) || (minedOnly && d.Height == 0) {
				continue
			}
			k := depKey(d.Op.Hash.String(), d.Op.Index, d.Height)
			if d.Class == clsStaking {
				wantS[k] = d
			} else {
				wantB[k] = d
			}
		}
		sr, err := srv.GetStakingHistory(bg, &pb.GetStakingHistoryRequest{Type: typ})
		if err != nil {
			t.Fatalf("wallet %d: API GetStakingHistory(%q): %v", wi, typ, err)
		}
		seen := map[string]bool{}
		for _, e := range sr.Txs {
			if minedOnly && e.BlockHeight == 0 {
				continue
			}
			if e.Utxo == nil || e.TxId != e.Utxo.TxId {
				t.Fatalf("wallet %d: API staking history entry %s carries utxo %+v", wi, e.TxId, e.Utxo)
			}
			k := depKey(e.TxId, e.Utxo.Vout, e.BlockHeight)
			if seen[k] {
				t.Fatalf("wallet %d: API staking history lists %s twice", wi, k)
			}
			seen[k] = true
			d, ok := wantS[k]
			if !ok {
				t.Fatalf("wallet %d: API staking history (type=%q) lists %s which is not a staking deposit of this wallet on the best chain / pending set\n  %s\n%s", wi, typ, k, w.journalTail(25), dumpDeposits(exp))
			}
			stk, _ := massutil.NewAddressStakingScriptHash(d.Hash[:], config.ChainParams)
			if v := apiAmount(t, "GetStakingHistory.amount", e.Utxo.Amount); v != d.Amount || e.Utxo.Address != stk.EncodeAddress() || uint64(e.Utxo.FrozenPeriod) != d.Period {
				t.Fatalf("wallet %d: API staking history %s = amount %d addr %s period %d, chain says %d %s %d", wi, k, v, e.Utxo.Address, e.Utxo.FrozenPeriod, d.Amount, stk.EncodeAddress(), d.Period)
			}
			// status: 1 pending; withdrawn exactly while a best-chain transaction spends the deposit
			const (
				stPending, stImmature, stMature, stExpired, stWithdrawing, stWithdrawn = 0, 1, 2, 3, 4, 5
			)
			wantSt := uint32(stMature)
			switch {
			case d.Height == 0:
				wantSt = stPending
			case tip-d.Height < consensus.StakingTxRewardStart:
				wantSt = stImmature
			case tip-d.Height > d.Period:
				wantSt = stExpired
				if d.Spent {
					wantSt = stWithdrawn
				} else if d.SpentBy && !minedOnly {
					wantSt = stWithdrawing
				}
			default:
				wantSt = stMature
			}
			if minedOnly && (e.Status == stWithdrawing || e.Status == stExpired) && (wantSt == stExpired) {
				wantSt = e.Status // spent-by-pending is not modelled here
			}
			if e.Status != wantSt {
				t.Fatalf("wallet %d tip %d: API staking history %s (height %d, period %d, withdrawn on chain=%v, spent by pending=%v) has status %d, want %d\n  %s", wi, tip, k, d.Height, d.Period, d.Spent, d.SpentBy, e.Status, wantSt, w.journalTail(25))
			}
		}
		for k, d := range wantS {
			if !seen[k] {
				t.Fatalf("wallet %d: staking deposit %s (amount %d, withdrawn=%v) is on the best chain / pending but missing from API GetStakingHistory(type=%q)\n  %s", wi, k, d.Amount, d.Spent, typ, w.journalTail(25))
			}
		}
		br, err := srv.GetBindingHistory(bg, &pb.GetBindingHistoryRequest{Type: typ})
		if err != nil && apiCode(err) == api.ErrAPIAbnormalData && w.flags["unsupported-output"] {
			// the history holds bare-multisig outputs (kept in some worlds as a robustness margin although
			// consensus refuses them in blocks); a deposit funded by one has no from-address the handler
			// could print. Outside the domain of the statement: not judged.
			w.flag("api-binding-view-skipped(multisig-funding)")
			continue
		}
		if err != nil {
			t.Fatalf("wallet %d: API GetBindingHistory(%q): %v\n  %s", wi, typ, err, w.journalTail(20))
		}
		seen = map[string]bool{}
		for _, e := range br.Histories {
			if minedOnly && e.BlockHeight == 0 {
				continue
			}
			if e.Utxo == nil || e.TxId != e.Utxo.TxId {
				t.Fatalf("wallet %d: API binding history entry %s carries utxo %+v", wi, e.TxId, e.Utxo)
			}
			k := depKey(e.TxId, e.Utxo.Vout, e.BlockHeight)
			if seen[k] {
				t.Fatalf("wallet %d: API binding history lists %s twice", wi, k)
			}
			seen[k] = true
			d, ok := wantB[k]
			if !ok {
				t.Fatalf("wallet %d: API binding history (type=%q) lists %s which is not a binding deposit of this wallet on the best chain / pending set\n  %s\n%s", wi, typ, k, w.journalTail(25), dumpDeposits(exp))
			}
			holder, _ := massutil.NewAddressWitnessScriptHash(d.Hash[:], config.ChainParams)
			var target massutil.Address
			wantType, wantSize := "MASS", uint32(0)
			if len(d.Target) == 20 {
				target, _ = massutil.NewAddressPubKeyHash(d.Target, config.ChainParams)
			} else {
				target, _ = massutil.NewAddressBindingTarget(d.Target, config.ChainParams)
				if d.Target[20] == 1 {
					wantType = "Chia"
				}
				wantSize = uint32(d.Target[21])
			}
			if v := apiAmount(t, "GetBindingHistory.amount", e.Utxo.Amount); v != d.Amount || e.Utxo.HolderAddress != holder.EncodeAddress() || e.Utxo.BindingTarget != target.EncodeAddress() ||
				e.Utxo.TargetType != wantType || e.Utxo.TargetSize != wantSize {
				t.Fatalf("wallet %d: API binding history %s = amount %d holder %s target %s (%s/%d), chain says %d %s %s (%s/%d)", wi, k, v, e.Utxo.HolderAddress, e.Utxo.BindingTarget,
					e.Utxo.TargetType, e.Utxo.TargetSize, d.Amount, holder.EncodeAddress(), target.EncodeAddress(), wantType, wantSize)
			}
			const (
				bPending, bConfirmed, bWithdrawing, bWithdrawn = 0, 1, 2, 3
			)
			wantSt := uint32(bConfirmed)
			switch {
			case d.Height == 0:
				wantSt = bPending
			case d.Spent:
				wantSt = bWithdrawn
			case d.SpentBy && !minedOnly:
				wantSt = bWithdrawing
			}
			if minedOnly && e.Status == bWithdrawing && wantSt == bConfirmed {
				wantSt = bWithdrawing
			}
			if e.Status != wantSt {
				t.Fatalf("wallet %d tip %d: API binding history %s (height %d, withdrawn on chain=%v, spent by pending=%v) has status %d, want %d\n  %s", wi, tip, k, d.Height, d.Spent, d.SpentBy, e.Status, wantSt, w.journalTail(25))
			}
			// the funding addresses of a deposit: the standard addresses its inputs were paid to. Funding
			// transactions that are not on the best chain are known to the real node's mempool only (the
			// simulated node keeps none), so for those the listing may lack the address, never invent one.
			if dtx := w.depositTx(d.Op.Hash); dtx != nil {
				wantFrom, optional := map[string]bool{}, map[string]bool{}
				if len(dtx.TxIn) > 0 && dtx.TxIn[0].PreviousOutPoint.Index == wire.MaxPrevOutIndex {
					wantFrom["COINBASE"] = true
				} else {
					for _, in := range dtx.TxIn {
						onChain := true
						ptx := w.chainTx(in.PreviousOutPoint.Hash)
						if ptx == nil {
							onChain = false
							ptx = w.pending[in.PreviousOutPoint.Hash]
						}
						if ptx == nil || int(in.PreviousOutPoint.Index) >= len(ptx.TxOut) {
							wantFrom = nil
							break
						}
						cls, h, _, _ := classify(ptx.TxOut[in.PreviousOutPoint.Index].PkScript)
						if cls == clsOther {
							wantFrom = nil
							break
						}
						a, _ := massutil.NewAddressWitnessScriptHash(h[:], config.ChainParams)
						if onChain {
							wantFrom[a.EncodeAddress()] = true
						} else {
							optional[a.EncodeAddress()] = true
						}
					}
				}
				if wantFrom != nil {
					got := map[string]bool{}
					for _, f := range e.FromAddresses {
						if got[f] {
							t.Fatalf("wallet %d: API binding history %s lists from-address %s twice", wi, k, f)
						}
						got[f] = true
						if !wantFrom[f] && !optional[f] {
							t.Fatalf("wallet %d: API binding history %s from-addresses %v, the deposit's inputs were paid to %v (+ unconfirmed %v)", wi, k, e.FromAddresses, sortedStrKeys(wantFrom), sortedStrKeys(optional))
						}
					}
					for f := range wantFrom {
						if !got[f] {
							t.Fatalf("wallet %d: API binding history %s from-addresses %v lack %s, to which a best-chain input of the deposit was paid", wi, k, e.FromAddresses, f)
						}
					}
				}
			}
		}
		for k, d := range wantB {
			if !seen[k] {
				t.Fatalf("wallet %d: binding deposit %s (amount %d, withdrawn=%v) is on the best chain / pending but missing from API GetBindingHistory(type=%q)\n  %s", wi, k, d.Amount, d.Spent, typ, w.journalTail(25))
			}
		}
	}
	w.flag("api-history-view")
}

func sortedStrKeys(m map[string]bool) []string {
	var out []string
	for k := range m {
		out = append(out, k)
	}
	sort.Strings(out)
	return out
}

// depositTx finds a transaction on the best chain or in the pending set.
func (w *World) depositTx(h wire.Hash) *wire.MsgTx {
	if tx := w.pending[h]; tx != nil {
		return tx
	}
	return w.chainTx(h)
}

// chainTx finds a transaction on the best chain.
func (w *World) chainTx(h wire.Hash) *wire.MsgTx {
	// transactions of attached blocks do not change any more: their ids are computed once per world
	if w.txIDs == nil {
		w.txIDs = map[*wire.MsgTx]wire.Hash{}
	}
	for _, b := range w.node.Chain {
		for _, tx := range b.MsgBlock().Transactions {
			id, ok := w.txIDs[tx]
			if !ok {
				id = tx.TxHash()
				w.txIDs[tx] = id
			}
			if id == h {
				return tx
			}
		}
	}
	return nil
}
