//go:build verif

package checks

import (
	"fmt"
	"math"
	"os"
	"runtime"
	"sort"
	"strings"
	"testing"
	"time"

	"github.com/massnetorg/mass-core/massutil"
	"github.com/massnetorg/mass-core/wire"
	"massnet.org/mass-wallet/masswallet"
	mwdb "massnet.org/mass-wallet/masswallet/db"
	"massnet.org/mass-wallet/masswallet/keystore"
	"pgregory.net/rapid"
	"verifharness/ev"
	"verifharness/guard"
	"verifharness/sim"
	"verifharness/xdb"
)

// ---- shared: recorded histories, replay, observation ------------------------------------------

// genHistory runs a generated history on a real world (the fault-free twin) and returns the world
// (still open) with its recorded script.
func genHistory(t *rapid.T, withRemoval bool) *World {
	useProfile(profSmall)
	nW := rapid.IntRange(1, 3).Draw(t, "wallets")
	ctl := xdb.NewCtl()
	worldRecCtl = ctl
	w := newWorldRec(t, nW, 20, func(d mwdb.DB) mwdb.DB { return xdb.Wrap(d, ctl) })
	if rapid.IntRange(0, 1).Draw(t, "withKeystoreImport") == 0 {
		w.importFromKeystore(t)
	}
	removals, lateImports, bursts := 0, 0, 0
	var importing []*mwallet // accepted imports whose background scan has not been waited for
	var unconf []*wire.MsgTx // unconfirmed transactions handed to the wallet so far
	var removing, removedDone []*mwallet
	settle := func() {
		// wait for background work; wallets whose import finished join the model. A rescan that meets a
		// reorganisation the handler has not processed yet waits for it, so queued notifications are
		// delivered in between (as the running service does concurrently).
		for n := 0; w.taskPending(t); n++ {
			if n > 6000 {
				t.Fatalf("background task did not finish within 6000 worker steps although every queued notification was delivered\n  %s", w.journalTail(30))
			}
			w.record(hstep{Kind: "serve"})
			ok, err := w.env.ServeWorker(20 * time.Second)
			if err != nil {
				t.Fatalf("HARNESS: worker: %v", err)
			}
			if !ok {
				t.Fatalf("background task pending but the worker never asked for its next step\n  %s", w.journalTail(30))
			}
			if n%4 == 3 && len(w.env.Queue) > 0 {
				w.actDeliver(t)
			}
		}
		for _, m := range importing {
			w.syncIssued(t, m)
			w.wallets = append(w.wallets, m)
		}
		importing = nil
		removedDone = append(removedDone, removing...)
		removing = nil
	}
	created := 0
	n := rapid.IntRange(6, 22).Draw(t, "historyLen")
	for i := 0; i < n; i++ {
		switch rapid.SampledFrom([]string{"newAddress", "mine", "mine", "mine", "reorg", "deliver", "deliver", "deliver", "remove", "lateImport", "serve", "settle", "mempoolTx", "mempoolTx", "redeliverTx", "importBurst", "reimport", "createWallet"}).Draw(t, "hact") {
		case "createWallet":
			// a brand-new wallet (random entropy: its id differs from run to run, the comparison knows)
			if created >= 2 || w.taskPending(t) {
				continue
			}
			created++
			w.record(hstep{Kind: "create", N: created})
			if _, _, _, err := w.env.W.CreateWallet(createdWalletPass, "c", 128); err != nil {
				t.Fatalf("CreateWallet: %v", err)
			}
			w.flag("create-wallet")
			w.logf("wallet #%d created", created)
		case "mempoolTx":
			// an unconfirmed transaction reaches the wallet (it may later confirm, be double-spent by a
			// block, or stay pending)
			if len(w.wallets) == 0 || len(unconf) >= 4 {
				continue
			}
			tx := w.genTx(t, w.chainView(t), w.node.Height()+1, func(c *Coin) bool { return w.ownedByAny(c) })
			if tx == nil {
				continue
			}
			w.record(hstep{Kind: "tx", Tx: tx})
			err := w.env.H.VerifProcessTx(tx)
			unconf = append(unconf, tx)
			w.flag("pending-tx-in-history")
			h := tx.TxHash()
			w.logf("unconfirmed tx %s -> %v", h.String()[:10], err)
		case "redeliverTx":
			if len(unconf) == 0 {
				continue
			}
			tx := unconf[rapid.IntRange(0, len(unconf)-1).Draw(t, "redeliver")]
			w.record(hstep{Kind: "tx", Tx: tx})
			err := w.env.H.VerifProcessTx(tx)
			h := tx.TxHash()
			w.logf("unconfirmed tx %s delivered again -> %v", h.String()[:10], err)
		case "importBurst":
			// several imports back to back (the service may refuse some: too many tasks)
			if bursts >= 1 || rapid.IntRange(0, 1).Draw(t, "doBurst") != 0 {
				continue
			}
			bursts++
			for k := 0; k < 5; k++ {
				ent := rapid.SliceOfN(rapid.Byte(), 16, 16).Draw(t, "burstEntropy")
				keys, _ := sim.EntropyFor(ent, "pass8Xburst")
				if keys == nil {
					continue
				}
				dup := false
				for _, o := range w.wallets {
					dup = dup || o.id == keys.ID
				}
				for _, o := range importing {
					dup = dup || o.id == keys.ID
				}
				if dup {
					continue
				}
				ws, err := w.env.W.ImportWalletWithMnemonic(&keystore.WalletParams{Mnemonic: keys.Mnemonic, PrivatePassphrase: []byte(keys.Pass), Remarks: "burst", AddressGapLimit: 20})
				if err != nil {
					w.logf("import in a burst refused: %v", err)
					continue
				}
				// recorded after the fact: only accepted requests are part of the script
				w.script = append(w.script, hstep{Kind: "import", Keys: keys})
				importing = append(importing, &mwallet{keys: keys, id: ws.WalletID, owns: map[[32]byte]bool{}})
				w.logf("import wallet %s requested (burst)", ws.WalletID[:10])
			}
			w.flag("import-burst")
		case "reimport":
			// a wallet whose removal is complete is imported again from its mnemonic
			if len(removedDone) == 0 || w.taskPending(t) {
				continue
			}
			m := removedDone[0]
			removedDone = removedDone[1:]
			w.record(hstep{Kind: "import", Keys: m.keys})
			ws, err := w.env.W.ImportWalletWithMnemonic(&keystore.WalletParams{Mnemonic: m.keys.Mnemonic, PrivatePassphrase: []byte(m.keys.Pass), Remarks: "again", AddressGapLimit: 20})
			if err != nil {
				t.Fatalf("importing a removed wallet again: %v", err)
			}
			importing = append(importing, &mwallet{keys: m.keys, id: ws.WalletID, owns: map[[32]byte]bool{}})
			w.flag("reimport-after-removal")
			w.logf("wallet %s imported again", ws.WalletID[:10])
		case "newAddress":
			if len(w.wallets) == 0 {
				continue
			}
			m := w.wallets[rapid.IntRange(0, len(w.wallets)-1).Draw(t, "wallet")]
			if ready, rem, ex := w.walletStatus(t, m.id); len(m.issued) < 5 && ex && ready && !rem {
				class := uint16(massutil.AddressClassWitnessV0)
				if rapid.IntRange(0, 3).Draw(t, "stk") == 0 {
					class = massutil.AddressClassWitnessStaking
				}
				if _, err := w.issueAddress(t, m, class); err != nil {
					t.Fatalf("NewAddress: %v", err)
				}
			}
		case "mine":
			w.actMine(t, true)
		case "reorg":
			if w.node.Height() >= 1 {
				w.actReorg(t)
			}
		case "deliver":
			if len(w.env.Queue) > 0 {
				w.actDeliver(t)
			}
		case "remove":
			// only the request: the background steps run when the history says so, so that several
			// tasks can be unfinished at once
			if withRemoval && removals < 2 && len(w.wallets) > 1 && rapid.IntRange(0, 1).Draw(t, "doRemove") == 0 {
				m := w.wallets[len(w.wallets)-1]
				if ready, rem, ex := w.walletStatus(t, m.id); !ex || !ready || rem {
					continue
				}
				w.record(hstep{Kind: "remove", Wallet: m.id, Pass: m.keys.Pass})
				if err := w.env.W.RemoveWallet(m.id, m.keys.Pass); err != nil {
					if err == masswallet.ErrTooManyTask {
						w.script = w.script[:len(w.script)-1]
						continue
					}
					t.Fatalf("RemoveWallet: %v", err)
				}
				removals++
				removing = append(removing, m)
				w.wallets = w.wallets[:len(w.wallets)-1]
				w.flag("removal-in-history")
				if removals == 2 || len(importing) > 0 {
					w.flag("two-tasks-unfinished")
				}
				w.logf("remove wallet %s requested", m.id[:10])
			}
		case "lateImport":
			if lateImports >= 1 || rapid.IntRange(0, 1).Draw(t, "doLateImport") != 0 {
				continue
			}
			ent := rapid.SliceOfN(rapid.Byte(), 16, 16).Draw(t, "lateEntropy")
			keys, _ := sim.EntropyFor(ent, "pass8Xlate")
			if keys == nil {
				continue
			}
			dup := false
			for _, o := range w.wallets {
				dup = dup || o.id == keys.ID
			}
			if dup {
				continue
			}
			w.record(hstep{Kind: "import", Keys: keys})
			ws, err := w.env.W.ImportWalletWithMnemonic(&keystore.WalletParams{Mnemonic: keys.Mnemonic, PrivatePassphrase: []byte(keys.Pass), Remarks: "late", AddressGapLimit: 20})
			if err == masswallet.ErrTooManyTask {
				w.script = w.script[:len(w.script)-1]
				continue
			}
			if err != nil {
				t.Fatalf("ImportWalletWithMnemonic: %v", err)
			}
			lateImports++
			importing = append(importing, &mwallet{keys: keys, id: ws.WalletID, owns: map[[32]byte]bool{}})
			w.flag("late-import")
			if removals > 0 && w.taskPending(t) {
				w.flag("two-tasks-unfinished")
			}
			w.logf("import wallet %s requested", ws.WalletID[:10])
		case "serve":
			if w.taskPending(t) {
				w.record(hstep{Kind: "serve"})
				if _, err := w.env.ServeWorker(20 * time.Second); err != nil {
					t.Fatalf("HARNESS: worker: %v", err)
				}
			}
		case "settle":
			settle()
		}
	}
	settle()
	if !w.tipAnnounced {
		w.actMine(t, true)
	}
	w.deliverAll(t)
	w.finishTasks(t)
	if len(unconf) == 0 {
		w.auditLedger(t) // (with unconfirmed transactions around, the spendable figures depend on the pending set: C09's topic)
	}
	return w
}

// importFromKeystore adds a wallet through ImportWallet(keystore JSON): the keystore is produced by a
// scratch instance (mnemonic import + 1..3 further standard addresses + export).
func (w *World) importFromKeystore(t *rapid.T) {
	ent := rapid.SliceOfN(rapid.Byte(), 16, 16).Draw(t, "ksEntropy")
	keys, _ := sim.EntropyFor(ent, "pass7Xks")
	if keys == nil {
		return
	}
	for _, o := range w.wallets {
		if o.id == keys.ID {
			return
		}
	}
	scratch, err := sim.NewEnv(w.node, 20, nil)
	if err != nil {
		t.Fatalf("HARNESS: %v", err)
	}
	defer scratch.Close()
	if err := scratch.StartStepped(); err != nil {
		t.Fatalf("HARNESS: %v", err)
	}
	if _, err := scratch.W.ImportWalletWithMnemonic(&keystore.WalletParams{Mnemonic: keys.Mnemonic, PrivatePassphrase: []byte(keys.Pass), Remarks: "ks", AddressGapLimit: 20}); err != nil {
		t.Fatalf("HARNESS: scratch import: %v", err)
	}
	for n := 0; n < 100; n++ {
		if ok, _ := scratch.W.CheckReady(keys.ID); ok {
			break
		}
		if _, err := scratch.ServeWorker(20 * time.Second); err != nil {
			t.Fatalf("HARNESS: %v", err)
		}
	}
	if _, err := scratch.W.UseWallet(keys.ID); err != nil {
		t.Fatalf("HARNESS: %v", err)
	}
	for i := 0; i < rapid.IntRange(1, 3).Draw(t, "ksAddrs"); i++ {
		if _, err := scratch.W.NewAddress(massutil.AddressClassWitnessV0); err != nil {
			t.Fatalf("HARNESS: %v", err)
		}
	}
	js, err := scratch.W.ExportWallet(keys.ID, keys.Pass)
	if err != nil {
		t.Fatalf("HARNESS: export: %v", err)
	}
	w.record(hstep{Kind: "importJSON", Keys: keys, JSON: js, Pass: keys.Pass})
	ws, err := w.env.W.ImportWallet(js, keys.Pass)
	if err != nil {
		t.Fatalf("ImportWallet(keystore): %v", err)
	}
	m := &mwallet{keys: keys, id: ws.WalletID, owns: map[[32]byte]bool{}}
	w.wallets = append(w.wallets, m)
	w.finishTasks(t)
	w.syncIssued(t, m)
	w.flag("keystore-import")
	w.logf("import wallet from keystore id=%s addrs=%d", m.id, len(m.issued))
}

func newWorldRec(t *rapid.T, nWallets int, gap uint32, wrap func(mwdb.DB) mwdb.DB) *World {
	worldRecording = true
	defer func() { worldRecording = false }()
	return newWorld(t, nWallets, gap, wrap)
}

// observeContext, when set, describes the run that is being observed (fault position, log) for
// failures inside observe itself.
var observeContext func() string

// observe renders everything a user can see of the wallet instance, canonically ordered.
func observe(t *rapid.T, env *sim.Env) []string {
	var out []string
	synced, err := env.W.SyncedTo()
	if err != nil {
		t.Fatalf("SyncedTo: %v", err)
	}
	out = append(out, fmt.Sprintf("synced=%d", synced))
	wl, err := env.W.Wallets()
	if err != nil {
		ctx := ""
		if observeContext != nil {
			ctx = observeContext()
		}
		t.Fatalf("the wallet list cannot be read any more - Wallets: %v%s", err, ctx)
	}
	sort.Slice(wl, func(i, j int) bool { return wl[i].WalletID < wl[j].WalletID })
	for _, s := range wl {
		out = append(out, fmt.Sprintf("wallet %s ready=%v removing=%v", s.WalletID, s.Status.Ready(), s.Status.IsRemoved()))
		if !s.Status.Ready() || s.Status.IsRemoved() {
			continue
		}
		for _, l := range ledgerSnapshot(t, env.W, s.WalletID) {
			out = append(out, "  "+s.WalletID[:8]+" "+l)
		}
		addrs, err := env.W.GetAddresses(math.MaxUint16)
		if err != nil {
			t.Fatalf("GetAddresses: %v", err)
		}
		for _, a := range addrs {
			out = append(out, fmt.Sprintf("  %s addr %s class=%d used=%v", s.WalletID[:8], a.Address, a.AddressClass, a.Used))
		}
	}
	out = append(out, pendingStore(t, env)...)
	return out
}

// comparable prepares an observation for the twin comparison. Which unconfirmed transactions a wallet
// holds is not a function of the final chain and the user's operations: it depends on which orphaned
// blocks the wallet happened to process before they were replaced (a wallet that was down, or whose
// block processing failed, never saw them) and on how far it was synced when an unconfirmed
// transaction arrived (a transaction spending a coin the wallet does not know yet is not relevant to
// it). Histories contain unconfirmed transactions so that their processing is crashed / faulted like
// everything else, but the pending set itself is left out of the comparison (C09 decides it).
func comparable(obs []string, script []hstep) []string {
	known := map[string]bool{}
	for _, st := range script {
		if (st.Kind == "import" || st.Kind == "importJSON") && st.Keys != nil {
			known[st.Keys.ID] = true
		}
	}
	// blocks: a "wallet <id> ..." header with its indented detail lines; wallets that no import of the
	// script brought in were created from random entropy - their ids differ from run to run and are
	// replaced by a placeholder, then the blocks are ordered again
	var head []string
	var blocks [][]string
	for _, l := range obs {
		if strings.HasPrefix(l, "pending ") {
			continue
		}
		if i := strings.Index(l, " spentByPending="); i >= 0 {
			l = l[:i]
		}
		switch {
		case strings.HasPrefix(l, "wallet "):
			blocks = append(blocks, []string{l})
		case strings.HasPrefix(l, "  ") && len(blocks) > 0:
			blocks[len(blocks)-1] = append(blocks[len(blocks)-1], l)
		default:
			head = append(head, l)
		}
	}
	for _, b := range blocks {
		f := strings.Fields(b[0])
		if len(f) < 2 || known[f[1]] {
			continue
		}
		id := f[1]
		for i := range b {
			b[i] = strings.ReplaceAll(b[i], id, "<created wallet>")
			if len(id) >= 8 {
				b[i] = strings.ReplaceAll(b[i], id[:8], "<created>")
			}
		}
	}
	sort.SliceStable(blocks, func(i, j int) bool { return strings.Join(blocks[i], "\n") < strings.Join(blocks[j], "\n") })
	out := head
	for _, b := range blocks {
		out = append(out, b...)
	}
	return out
}

// pendingStore lists the hashes of the transactions in the wallet's pending store.
func pendingStore(t *rapid.T, env *sim.Env) []string {
	var out []string
	err := mwdb.View(env.DB, func(rtx mwdb.ReadTransaction) error {
		b := rtx.TopLevelBucket("t")
		if b != nil {
			b = b.Bucket("m")
		}
		if b == nil {
			return nil
		}
		es, err := b.GetByPrefix(nil)
		if err != nil {
			return err
		}
		for _, e := range es {
			out = append(out, fmt.Sprintf("pending %x", e.Key))
		}
		return nil
	})
	if err != nil {
		t.Fatalf("reading the pending store: %v", err)
	}
	sort.Strings(out)
	return out
}

func diffObs(a, b []string) string {
	am, bm := map[string]bool{}, map[string]bool{}
	for _, x := range a {
		am[x] = true
	}
	for _, x := range b {
		bm[x] = true
	}
	var sb strings.Builder
	for _, x := range a {
		if !bm[x] {
			sb.WriteString("    only in the fault-free run: " + x + "\n")
		}
	}
	for _, x := range b {
		if !am[x] {
			sb.WriteString("    only in the faulted run:    " + x + "\n")
		}
	}
	return sb.String()
}

// replayer executes a recorded script on a fresh node + wallet instance.
type replayer struct {
	node   *sim.Node
	env    *sim.Env
	ctl    *xdb.Ctl
	tipAnn bool
	log    []string
	closed bool
	known  map[string]bool // wallet ids the script's imports bring in (everything else listed was created)
	// C06: the live restart itself is crashed after this many further commits (0 = not)
	liveCrashAfter int64
	liveCrashes    int
	lastDone       bool           // the user operation of the last step returned success
	issued         map[string]int // wallet id -> addresses issued by completed operations (C06 re-issue decision)
}

func newReplayer(t *rapid.T, ctl *xdb.Ctl) *replayer {
	node, err := sim.NewNode()
	if err != nil {
		t.Fatalf("HARNESS: %v", err)
	}
	env, err := sim.NewEnv(node, 20, func(d mwdb.DB) mwdb.DB { return xdb.Wrap(d, ctl) })
	if err != nil {
		node.Close()
		t.Fatalf("HARNESS: %v", err)
	}
	if err := env.StartStepped(); err != nil {
		t.Fatalf("HARNESS: %v", err)
	}
	r := &replayer{node: node, env: env, ctl: ctl, tipAnn: true, issued: map[string]int{}, known: map[string]bool{}}
	t.Cleanup(r.close)
	return r
}

func (r *replayer) close() {
	if r.closed {
		return
	}
	r.closed = true
	r.env.Close()
	r.node.Close()
}

func (r *replayer) walletListed(t *rapid.T, id string) (listed, ready, removing bool) {
	var wl []*masswallet.WalletSummary
	var err error
	for try := 0; ; try++ {
		if wl, err = r.env.W.Wallets(); err == nil {
			break
		}
		r.log = append(r.log, fmt.Sprintf("Wallets -> %v", err))
		if try >= 6 {
			t.Fatalf("Wallets keeps failing after the storage fault is gone: %v", err)
		}
	}
	for _, s := range wl {
		if s.WalletID == id {
			return true, s.Status.Ready(), s.Status.IsRemoved()
		}
	}
	return false, false, false
}

func (r *replayer) walletsLine() string {
	wl, err := r.env.W.Wallets()
	if err != nil {
		return err.Error()
	}
	var sb strings.Builder
	for _, s := range wl {
		fmt.Fprintf(&sb, "%s ready=%v removing=%v status=%+v; ", s.WalletID[:10], s.Status.Ready(), s.Status.IsRemoved(), *s.Status)
	}
	return sb.String()
}

const createdWalletPass = "pw9Xcreated1"

// countCreated counts the listed wallets that no import of the script accounts for.
func (r *replayer) countCreated(t *rapid.T) int {
	for try := 0; try < 7; try++ {
		wl, err := r.env.W.Wallets()
		if err != nil {
			r.log = append(r.log, fmt.Sprintf("Wallets -> %v", err))
			continue
		}
		n := 0
		for _, s := range wl {
			if !r.known[s.WalletID] {
				n++
			}
		}
		return n
	}
	t.Fatalf("the wallet list cannot be read: %s", strings.Join(r.log, "\n  "))
	return 0
}

func (r *replayer) taskPending() bool {
	for try := 0; try < 7; try++ {
		wl, err := r.env.W.Wallets()
		if err != nil {
			r.log = append(r.log, fmt.Sprintf("Wallets -> %v", err))
			continue
		}
		for _, s := range wl {
			if !s.Status.Ready() || s.Status.IsRemoved() {
				return true
			}
		}
		return false
	}
	// the wallet list cannot be read (e.g. a failed removal step left its keystore out of the cache
	// until the step is retried). The running service does not consult the list either: its follower
	// serves the worker whenever the worker asks. So: is the worker asking (or busy)?
	ws, _ := guard.WaitWorker(r.env.HandlerPtr(), 5*time.Second)
	return ws == "suspend" || ws == "resume" || ws == "busy"
}

// step executes one step; user operations that fail are repeated (bounded), which is what a user
// or the surrounding service would do after an error.
func (r *replayer) step(t *rapid.T, s hstep) {
	r.lastDone = false
	r.stepInner(t, s)
}

func (r *replayer) stepInner(t *rapid.T, s hstep) {
	switch s.Kind {
	case "attach":
		if err := r.node.Attach(s.Block); err != nil {
			t.Fatalf("HARNESS: replay attach: %v", err)
		}
	case "detach":
		if err := r.node.DetachTip(); err != nil {
			t.Fatalf("HARNESS: replay detach: %v", err)
		}
	case "announce":
		r.env.Announce(s.Msg)
	case "deliver":
		if len(r.env.Queue) > 0 {
			if _, err := r.env.Deliver(); err != nil {
				r.log = append(r.log, fmt.Sprintf("deliver -> %v", err))
			}
		}
	case "serve":
		if r.taskPending() {
			if _, err := r.env.ServeWorker(20 * time.Second); err != nil {
				t.Fatalf("HARNESS: worker: %v", err)
			}
		}
	case "create":
		// state-based like the imports: afterwards at least s.N wallets exist that no import of the script
		// brought in. A user whose request failed asks again; one whose process died looks at the list.
		for try := 0; r.countCreated(t) < s.N; try++ {
			_, _, _, err := r.env.W.CreateWallet(createdWalletPass, "c", 128)
			if err == nil {
				break
			}
			if r.ctl.Frozen() {
				return
			}
			r.log = append(r.log, fmt.Sprintf("create -> %v", err))
			if try >= 4 {
				t.Fatalf("creating a wallet keeps failing after the storage fault is gone: %v\n  %s", err, strings.Join(r.log, "\n  "))
			}
		}
	case "import":
		r.known[s.Keys.ID] = true
		for try := 0; ; try++ {
			listed, _, removing := r.walletListed(t, s.Keys.ID)
			if listed && removing && !r.ctl.Frozen() {
				// the wallet is imported AGAIN after its removal; here the removal is still running (it
				// was delayed by the fault): the user waits for it
				r.finishTasks(t)
				listed, _, _ = r.walletListed(t, s.Keys.ID)
			}
			if listed {
				break
			}
			_, err := r.env.W.ImportWalletWithMnemonic(&keystore.WalletParams{Mnemonic: s.Keys.Mnemonic, PrivatePassphrase: []byte(s.Keys.Pass), Remarks: "w", AddressGapLimit: 20})
			if err == nil || err == keystore.ErrDuplicateSeed {
				break
			}
			if r.ctl.Frozen() {
				return // the process is dying (C06): nothing more happens in it
			}
			if err == masswallet.ErrTooManyTask {
				// the queue is fuller than in the recording run (a failed step was put back): the user
				// waits for background work and asks again
				r.finishTasks(t)
				continue
			}
			r.log = append(r.log, fmt.Sprintf("import -> %v", err))
			if try >= 4 {
				t.Fatalf("importing the wallet keeps failing after the storage fault is gone: %v\n  %s", err, strings.Join(r.log, "\n  "))
			}
		}
	case "tx":
		for try := 0; try < 4; try++ {
			err := r.env.H.VerifProcessTx(s.Tx)
			if err == nil {
				break
			}
			r.log = append(r.log, fmt.Sprintf("unconfirmed tx -> %v", err))
			if !strings.Contains(err.Error(), "injected") {
				break // refused for a reason of its own (conflict, unknown parent, duplicate): same as in the twin
			}
			// a storage failure: the transaction is announced again (peers do that)
		}
	case "importJSON":
		r.known[s.Keys.ID] = true
		for try := 0; ; try++ {
			if listed, _, _ := r.walletListed(t, s.Keys.ID); listed {
				break
			}
			_, err := r.env.W.ImportWallet(s.JSON, s.Pass)
			if err == nil || err == keystore.ErrDuplicateSeed {
				break
			}
			if r.ctl.Frozen() {
				return
			}
			r.log = append(r.log, fmt.Sprintf("import keystore -> %v", err))
			if try >= 4 {
				t.Fatalf("importing the keystore keeps failing after the storage fault is gone: %v\n  %s", err, strings.Join(r.log, "\n  "))
			}
		}
	case "newAddress":
		// the user asks for one address and repeats the request while it reports failure
		for try := 0; ; try++ {
			_, err := r.env.W.UseWallet(s.Wallet)
			if err == masswallet.ErrWalletUnready {
				// the import was delayed by the fault: wait for the background work like a user would
				r.finishTasks(t)
				_, err = r.env.W.UseWallet(s.Wallet)
			}
			if err != nil {
				if r.ctl.Frozen() {
					return
				}
				r.log = append(r.log, fmt.Sprintf("UseWallet -> %v", err))
				if try >= 4 {
					t.Fatalf("UseWallet(%s) keeps failing after the storage fault is gone: %v\n  wallets: %s\n  %s", s.Wallet, err, r.walletsLine(), strings.Join(r.log, "\n  "))
				}
				continue
			}
			_, err = r.env.W.NewAddress(s.Class)
			if err == nil {
				r.issued[s.Wallet]++
				r.lastDone = true
				break
			}
			if r.ctl.Frozen() {
				return
			}
			r.log = append(r.log, fmt.Sprintf("NewAddress -> %v", err))
			if try >= 4 {
				t.Fatalf("NewAddress keeps failing after the storage fault is gone: %v", err)
			}
		}
	case "remove":
		for try := 0; ; try++ {
			listed, _, removing := r.walletListed(t, s.Wallet)
			if !listed || removing {
				break
			}
			err := r.env.W.RemoveWallet(s.Wallet, s.Pass)
			if err == masswallet.ErrWalletUnready || err == masswallet.ErrTooManyTask {
				r.finishTasks(t)
				err = r.env.W.RemoveWallet(s.Wallet, s.Pass)
			}
			if err != nil {
				if r.ctl.Frozen() {
					return
				}
				r.log = append(r.log, fmt.Sprintf("RemoveWallet -> %v", err))
				if try >= 4 {
					t.Fatalf("RemoveWallet keeps failing after the storage fault is gone: %v", err)
				}
			}
		}
	}
}

// finishTasks serves worker sections until no import / removal is pending. A rescan that was
// pushed behind a reorganisation by the fault waits ("importing continuable") until the handler has
// processed the queued notifications, which in the running service happens concurrently: so queued
// notifications are delivered in between.
func (r *replayer) finishTasks(t *rapid.T) {
	for n := 0; n < 3000 && r.taskPending(); n++ {
		if r.ctl.Frozen() {
			return
		}
		ok, err := r.env.ServeWorker(20 * time.Second)
		if err != nil {
			t.Fatalf("HARNESS: worker: %v", err)
		}
		if !ok {
			t.Fatalf("background task pending but the worker never asked for its next step\n  %s", strings.Join(r.log, "\n  "))
		}
		if n%4 == 3 {
			if len(r.env.Queue) == 0 {
				r.env.Announce(r.node.Tip().MsgBlock())
			}
			if _, err := r.env.Deliver(); err != nil {
				r.log = append(r.log, fmt.Sprintf("deliver (while waiting for background work) -> %v", err))
			}
		}
	}
	if r.taskPending() {
		t.Fatalf("background work does not finish after the storage fault is gone\n  wallets: %s\n  %s", r.walletsLine(), strings.Join(r.log, "\n  "))
	}
}

// converge announces the current tip, processes everything and finishes background work.
func (r *replayer) converge(t *rapid.T) {
	for i := 0; i < 3; i++ {
		r.env.Queue = nil
		r.env.Announce(r.node.Tip().MsgBlock())
		if _, err := r.env.Deliver(); err != nil {
			r.log = append(r.log, fmt.Sprintf("converge deliver -> %v", err))
		}
		r.finishTasks(t)
		if s, _ := r.env.W.SyncedTo(); s == r.node.Height() && !r.taskPending() {
			return
		}
	}
}

// ---- C18: a failed storage operation can be retried and leaves no trace -----------------------

var c18 = ev.Open("C18", "fault_enumeration",
	"rapid-generated histories (wallet imports, new addresses, blocks, reorganisations, lagging notifications, wallet removal with its "+
		"background steps) are first run fault-free (twin) while counting every interposed database call M (begin, get, prefix-get, "+
		"put, delete, clear, bucket create/delete, commit; iterator calls are counted but never failed). Then the same recorded history is replayed on a fresh node + wallet "+
		"with call number k failing (error returned, no side effect), for k sampled in quick (stratified by call kind) and for ALL k in "+
		"thorough, plus a repeated-fault variant (k..k+r). The failing operation must report an error or retry internally; the harness "+
		"repeats user operations that reported failure, then finishes the history. Oracle: final observation (synced height, wallet list, "+
		"balances, unspent outputs, histories, address lists with used flags) equals the twin's and the ledger equals the chain model. "+
		"Non-trivial = fault landed inside block/reorg processing, an import/removal step, or a user operation (i.e. it was actually "+
		"injected), distinct by (history hash, k).")

// the calls the property quantifies over (begin, put, delete, get, commit and their bucket-level
// variants). Iterator errors are not in its list: an iterator reports them through Error() after the
// loop, a different contract that the property does not speak about.
var c18Kinds = map[string]bool{"begin": true, "beginread": true, "get": true, "getprefix": true, "put": true, "delete": true,
	"clear": true, "createbucket": true, "deletebucket": true, "commit": true}

func propC18(t *rapid.T) {
	twin := genHistory(t, true)
	script := twin.script
	want := comparable(observe(t, twin.env), twin.script)
	histKey := hkey(strings.Join(twin.journal, "\n"))
	twin.close()
	// fault-free replay: fixes the numbering of database calls that the faulted replays will see, and
	// checks that the recorded script reproduces the twin (otherwise the harness, not the wallet, is off)
	var total, base int64
	var trace []string
	var userOps [][2]int64 // call ranges (1-based, inclusive) of the user operations of the script
	var bigOps []int       // indexes of the imports / removals among them (many writes in one transaction)
	{
		ctl := xdb.NewCtl()
		ctl.KeepTrace = true
		r := newReplayer(t, ctl)
		var got []string
		func() {
			defer r.close()
			base = ctl.Calls()
			for _, s := range script {
				from := ctl.Calls()
				r.step(t, s)
				switch s.Kind {
				case "import", "importJSON", "newAddress", "remove", "create":
					userOps = append(userOps, [2]int64{from - base + 1, ctl.Calls() - base})
					if s.Kind != "newAddress" {
						bigOps = append(bigOps, len(userOps)-1)
					}
				}
			}
			r.converge(t)
			total = ctl.Calls() - base
			trace = append([]string(nil), ctl.Trace...)
			got = comparable(observe(t, r.env), script)
		}()
		if strings.Join(got, "\n") != strings.Join(want, "\n") {
			t.Fatalf("HARNESS: fault-free replay of the recorded script differs from the recording run\n%s  history:\n  %s", diffObs(want, got), twin.journalTail(30))
		}
	}
	if total <= 0 {
		return
	}
	// choose fault positions
	var ks []int64
	if ev.Thorough() && total <= 1500 {
		for k := int64(1); k <= total; k++ {
			ks = append(ks, k)
		}
	} else {
		n := 20
		if ev.Thorough() {
			n = 120
		}
		// stratify by kind: make sure every kind present gets a representative
		byKind := map[string][]int64{}
		for i, kind := range trace {
			if int64(i) >= base && c18Kinds[kind] {
				byKind[kind] = append(byKind[kind], int64(i)-base+1)
			}
		}
		kinds := make([]string, 0, len(byKind))
		for k := range byKind {
			kinds = append(kinds, k)
		}
		sort.Strings(kinds)
		for _, kind := range kinds {
			l := byKind[kind]
			ks = append(ks, l[rapid.IntRange(0, len(l)-1).Draw(t, "k-"+kind)])
		}
		// user operations are short compared with block processing: give one of them a few faults
		// of its own (writes preferred - an unreported failed write is what leaves a trace)
		if len(userOps) > 0 {
			op := userOps[rapid.IntRange(0, len(userOps)-1).Draw(t, "faultedUserOp")]
			if len(bigOps) > 0 && rapid.Bool().Draw(t, "preferImportOrRemoval") {
				op = userOps[bigOps[rapid.IntRange(0, len(bigOps)-1).Draw(t, "faultedBigOp")]]
			}
			var puts []int64
			for k := op[0]; k <= op[1]; k++ {
				if kd := trace[base+k-1]; kd == "put" || kd == "delete" || kd == "commit" {
					puts = append(puts, k)
				}
			}
			for i := 0; i < 6 && len(puts) > 0; i++ {
				ks = append(ks, puts[rapid.IntRange(0, len(puts)-1).Draw(t, "k-userop-write")])
			}
			if op[1] >= op[0] {
				ks = append(ks, int64(rapid.IntRange(int(op[0]), int(op[1])).Draw(t, "k-userop")))
			}
		}
		for len(ks) < n {
			ks = append(ks, int64(rapid.IntRange(1, int(total)).Draw(t, "k")))
		}
	}
	injectedTotal := 0
	for _, k := range ks {
		repeat := int64(1)
		if rapid.IntRange(0, 5).Draw(t, "repeatFault") == 0 {
			repeat = int64(rapid.IntRange(2, 4).Draw(t, "faultLen"))
		}
		ctl := xdb.NewCtl()
		r := newReplayer(t, ctl)
		func() {
			defer func() {
				r.close()
				if os.Getenv("VERIF_DEBUG") != "" {
					var ms runtime.MemStats
					runtime.ReadMemStats(&ms)
					fmt.Fprintf(os.Stderr, "DEBUG k=%d/%d repeat=%d injected=%v goroutines=%d heap=%dMB log=%v\n", k, total, repeat, ctl.Injected, runtime.NumGoroutine(), ms.HeapAlloc>>20, r.log)
				}
			}()
			ctl.FailKinds = c18Kinds
			ctl.KeepStacks = true
			ctl.FailAt = ctl.Calls() + k
			ctl.FailRepeat = repeat
			for _, s := range script {
				r.step(t, s)
			}
			ctl.FailAt = 0
			observeContext = func() string {
				return fmt.Sprintf("\n  after a storage fault at database call %d of %d (kinds failed: %v, repeat %d)\n  failed calls came from:\n    %s\n  faulted run log:\n    %s\n  history:\n  %s",
					k, total, ctl.Injected, repeat, strings.Join(ctl.Stacks, "\n    "), strings.Join(r.log, "\n    "), twin.journalTail(30))
			}
			r.converge(t)
			got := comparable(observe(t, r.env), script)
			observeContext = nil
			if strings.Join(got, "\n") != strings.Join(want, "\n") {
				t.Fatalf("storage fault at database call %d of %d (kinds failed: %v, repeat %d): final state differs from the fault-free run\n%s  failed calls came from:\n    %s\n  faulted run log:\n    %s\n  history:\n  %s",
					k, total, ctl.Injected, repeat, diffObs(want, got), strings.Join(ctl.Stacks, "\n    "), strings.Join(r.log, "\n    "), twin.journalTail(30))
			}
			injected := len(ctl.Injected) > 0
			if injected {
				injectedTotal++
			}
			lbl := "not-reached"
			if injected {
				lbl = "fault:" + ctl.Injected[0]
			}
			c18.Case(hkey(histKey, k, repeat), injected, lbl, fmt.Sprintf("repeat:%d", repeat))
			if injected {
				c18.Sample(lbl, 1, map[string]interface{}{"k": k, "of": total, "kinds": ctl.Injected, "history": twin.journal, "fault_log": r.log})
			}
		}()
	}
	c18.Label("histories", 1)
	if ev.Thorough() && total <= 1500 {
		c18.Label("histories-with-all-k-enumerated", 1)
	}
	_ = guard.Fatals
}

func TestC18(t *testing.T) {
	t.Run("faults", rapid.MakeCheck(propC18))
}
