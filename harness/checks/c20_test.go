//go:build verif

package checks

import (
	"fmt"
	"os"
	"runtime"
	"sort"
	"strings"
	"sync"
	"sync/atomic"
	"testing"
	"time"

	"pgregory.net/rapid"

	mwdb "massnet.org/mass-wallet/masswallet/db"
	"massnet.org/mass-wallet/masswallet/keystore"
	"verifharness/ev"
	"verifharness/guard"
	"verifharness/sim"
	"verifharness/xdb"
)

// ---- C20: shutdown always completes; follower and worker never deadlock -----------------------

var c20 = ev.Open("C20", "exploration",
	"a generated prefix history (imports, blocks with payments, reorganisations; thorough: sometimes > 1000 quiet blocks so that an "+
		"import needs several steps) is built in stepped mode, then the instance is restarted with the REAL WalletManager.Start() (catch-up, "+
		"follower goroutine `handle`, background `worker`). A generated burst of concurrent work follows without waiting: 1-4 blocks / a reorg "+
		"announced through OnBlockConnected, the import of a further wallet, the removal of a wallet. The stop request (WalletManager.Stop()) "+
		"is placed either after a drawn delay (0 .. 20 ms), or at the g-th wallet-database call counted from the start of the burst (issued "+
		"from inside that call by whichever goroutine makes it, so it lands between two specific steps of block processing / import / "+
		"removal), or not at all. Oracle: Stop returns within the bound; if it does not, the goroutine dump decides: worker blocked in the "+
		"suspend/resume hand-shake while the follower is gone (or vice versa) is a deadlock = violation, anything else is reported "+
		"inconclusive. After Stop the database directory can be opened again (it was closed); after a restart with Start() and a tip "+
		"announcement every accepted import is ready, every accepted removal is gone, synced height = node height within the bound. "+
		"Without a stop request the same convergence must be reached by the running instance. Non-trivial = the stop request was issued "+
		"while a task or queued block was in flight (worker or follower not idle, or task accepted less than the drawn delay before).")

type liveRun struct {
	w        *World
	ctl      *xdb.Ctl
	accepted []string // wallet ids whose import was accepted
	removed  []string // wallet ids whose removal was accepted
	log      []string

	apiMu       sync.RWMutex // held (read) by API requests of the burst; Stop waits for them
	stopOnce    sync.Once
	stopIssued  chan struct{}
	stopDone    chan struct{}
	stateAtStop string
}

func (l *liveRun) logf(f string, a ...interface{}) { l.log = append(l.log, fmt.Sprintf(f, a...)) }

// converged reports whether every accepted task is finished and the wallet is at the node's tip.
func (l *liveRun) converged() (bool, string) {
	env := l.w.env
	s, err := env.W.SyncedTo()
	if err != nil {
		return false, "SyncedTo: " + err.Error()
	}
	if s != l.w.node.Height() {
		return false, fmt.Sprintf("synced to %d, node at %d", s, l.w.node.Height())
	}
	if bb := env.H.VerifBestBlock(); bb.Height == s && bb.Hash != *l.w.node.Tip().Hash() {
		return false, fmt.Sprintf("at height %d the wallet follows block %v, the node's best block is %v", s, bb.Hash, l.w.node.Tip().Hash())
	}
	wl, err := env.W.Wallets()
	if err != nil {
		return false, "Wallets: " + err.Error()
	}
	st := map[string]string{}
	for _, x := range wl {
		switch {
		case x.Status.IsRemoved():
			st[x.WalletID] = "removing"
		case !x.Status.Ready():
			st[x.WalletID] = "importing"
		default:
			st[x.WalletID] = "ready"
		}
	}
	for _, id := range l.removed {
		if v, ok := st[id]; ok {
			return false, fmt.Sprintf("wallet %s whose removal was accepted is still listed (%s)", id[:10], v)
		}
	}
	for _, id := range l.accepted {
		gone := false
		for _, r := range l.removed {
			gone = gone || r == id
		}
		if gone {
			continue
		}
		if st[id] != "ready" {
			return false, fmt.Sprintf("wallet %s whose import was accepted is %q", id[:10], st[id])
		}
	}
	for id, v := range st {
		if v != "ready" {
			return false, fmt.Sprintf("wallet %s is %s", id[:10], v)
		}
	}
	return true, ""
}

// startStop issues the stop request (once) from its own goroutine.
func (l *liveRun) startStop() {
	l.stopOnce.Do(func() {
		env := l.w.env
		l.stateAtStop = guard.WorkerState(env.HandlerPtr()) + "/" + guard.HandlerState(env.HandlerPtr())
		l.stopDone = make(chan struct{})
		close(l.stopIssued)
		go func() {
			// requests already being served finish first (the service closes its API before the wallet)
			l.apiMu.Lock()
			env.W.Stop()
			l.apiMu.Unlock()
			close(l.stopDone)
		}()
	})
}

// awaitStop waits for the issued Stop and classifies a stop that does not return.
func (l *liveRun) awaitStop(t *rapid.T, what string) {
	hp := l.w.env.HandlerPtr()
	deadline := time.Now().Add(40 * time.Second)
	structural := 0
	for {
		select {
		case <-l.stopDone:
			return
		case <-time.After(250 * time.Millisecond):
		}
		ws, hs := guard.WorkerState(hp), guard.HandlerState(hp)
		dead := (hs == "absent" && (ws == "suspend" || ws == "resume")) || (ws == "absent" && hs == "resume-wait")
		if dead {
			structural++
		} else {
			structural = 0
		}
		if structural >= 8 { // the same impossible wait for two seconds
			t.Fatalf("%s: WalletManager.Stop() does not return: the background worker is blocked in %q while the chain follower goroutine is %q - nobody is left to complete the hand-shake (deadlock)\n  burst: %s\n  history:\n  %s\n%s",
				what, ws, hs, strings.Join(l.log, "; "), l.w.journalTail(12), wantedStacks(hp))
		}
		if time.Now().After(deadline) {
			// not one of the known hand-shake deadlocks. Still working, or parked for good somewhere else
			// (a mutex, a wait group, a channel nobody serves)? Three samples over six seconds: if every
			// wallet goroutine that is left (worker, follower, the Stop call) sits in a blocking primitive
			// with an unchanged stack, nothing will ever complete the stop.
			if parkedForGood(hp) {
				t.Fatalf("%s: WalletManager.Stop() does not return: after 40 s every remaining wallet goroutine is parked in a blocking primitive and none has moved for six seconds (worker %s, follower %s)\n  burst: %s\n  history:\n  %s\n%s",
					what, ws, hs, strings.Join(l.log, "; "), l.w.journalTail(12), wantedStacks(hp))
			}
			t.Fatalf("HARNESS-ERROR: %s: Stop did not return within 40 s but the goroutine dump shows no structural deadlock (worker %s, follower %s)\n%s", what, ws, hs, wantedStacks(hp))
		}
	}
}

// parkedForGood samples the wallet goroutines of one handler (worker, follower, a Stop call) three
// times over six seconds and reports whether each of them is in a blocking primitive with an unchanged
// stack every time.
func parkedForGood(hp uintptr) bool {
	sample := func() (string, bool) {
		tag := fmt.Sprintf("(0x%x", hp)
		var stacks []string
		all := true
		for _, g := range guard.Parse(guard.AllStacks()) {
			if !strings.Contains(g.Raw, tag) || !(g.Has("masswallet.worker") || g.Has("masswallet.handle") || g.Has("NtfnsHandler).Stop")) {
				continue
			}
			blocking := false
			for _, b := range []string{"sync.Mutex.Lock", "sync.RWMutex", "semacquire", "chan send", "chan receive", "select", "sync.Cond.Wait", "sync.WaitGroup.Wait"} {
				blocking = blocking || strings.HasPrefix(g.State, b)
			}
			all = all && blocking
			raw := g.Raw
			if k := strings.Index(raw, "\n"); k >= 0 {
				raw = raw[k+1:] // the header may gain a wait time between samples
			}
			stacks = append(stacks, raw)
		}
		sort.Strings(stacks)
		return strings.Join(stacks, "\n\n"), all && len(stacks) > 0
	}
	first, ok := sample()
	for k := 0; k < 2 && ok; k++ {
		time.Sleep(3 * time.Second)
		var again string
		again, ok = sample()
		ok = ok && again == first
	}
	return ok
}

func (l *liveRun) resetStop() {
	l.stopOnce = sync.Once{}
	l.stopIssued = make(chan struct{})
	l.stopDone = nil
}

// waitWorkerInit waits until the freshly started worker goroutine has created its task queue (the
// API of the service is opened after start-up; a request in the first microseconds is not C20's topic).
func waitWorkerInit(t *rapid.T, env *sim.Env) {
	deadline := time.Now().Add(10 * time.Second)
	for !env.H.VerifWorkerReady() {
		if time.Now().After(deadline) {
			t.Fatalf("HARNESS-ERROR: worker did not initialise")
		}
		time.Sleep(50 * time.Microsecond)
	}
}

// backgroundCallerKind names the wallet goroutine the caller runs in ("handle", "worker" or "").
func backgroundCallerKind() string {
	pc := make([]uintptr, 40)
	n := runtime.Callers(3, pc)
	fr := runtime.CallersFrames(pc[:n])
	for {
		f, more := fr.Next()
		if strings.HasSuffix(f.Function, "masswallet.worker") {
			return "worker"
		}
		if strings.HasSuffix(f.Function, "masswallet.handle") {
			return "handle"
		}
		if !more {
			return ""
		}
	}
}

// backgroundCaller reports whether the current goroutine is the wallet's follower or worker.
func backgroundCaller() bool {
	pc := make([]uintptr, 40)
	n := runtime.Callers(3, pc)
	fr := runtime.CallersFrames(pc[:n])
	for {
		f, more := fr.Next()
		if strings.HasSuffix(f.Function, "masswallet.worker") || strings.HasSuffix(f.Function, "masswallet.handle") {
			return true
		}
		if !more {
			return false
		}
	}
}

// wantedStacks renders the wallet goroutines of a dump.
func wantedStacks(hp uintptr) string {
	var sb strings.Builder
	tag := fmt.Sprintf("(0x%x", hp)
	for _, g := range guard.Parse(guard.AllStacks()) {
		if !strings.Contains(g.Raw, tag) {
			continue
		}
		if g.Has("masswallet.worker") || g.Has("masswallet.handle") || g.Has("NtfnsHandler).Stop") {
			sb.WriteString(g.Raw + "\n\n")
		}
	}
	return sb.String()
}

func propC20(t *rapid.T) {
	useProfile(profSmall)
	ctl := xdb.NewCtl()
	w := newWorld(t, rapid.IntRange(1, 2).Draw(t, "wallets"), 20, func(d mwdb.DB) mwdb.DB { return xdb.Wrap(d, ctl) })
	l := &liveRun{w: w, ctl: ctl, stopIssued: make(chan struct{})}
	phase := "stepped" // stepped | live | closed | gone
	defer func() {
		ctl.OnCall = nil
		switch phase {
		case "stepped":
			w.close()
			return
		}
		w.closed = true // disposed of below
		w.apiForget()
		switch phase {
		case "live":
			// still running (a failure above): stop it without judging
			guard.Call(20*time.Second, func() { w.env.W.Stop() })
		}
		if phase != "gone" {
			os.RemoveAll(w.env.Dir)
			w.node.Close()
		}
	}()
	for _, m := range w.wallets {
		l.accepted = append(l.accepted, m.id)
	}
	// prefix in stepped mode
	n := rapid.IntRange(1, 6).Draw(t, "prefix")
	long := rapid.IntRange(0, 7).Draw(t, "longChain") == 0 || (ev.Thorough() && rapid.IntRange(0, 3).Draw(t, "longChainT") == 0)
	for i := 0; i < n; i++ {
		if rapid.IntRange(0, 5).Draw(t, "reorgInPrefix") == 0 && w.node.Height() >= 1 {
			w.actReorg(t)
		} else {
			w.actMine(t, true)
		}
	}
	if long {
		nq := 1050 + rapid.IntRange(0, 1300).Draw(t, "quiet")
		for j := 0; j < nq; j++ {
			blk := w.node.NewBlock(w.node.Tip(), nil, nil)
			if err := w.node.Attach(blk); err != nil {
				t.Fatalf("HARNESS: %v", err)
			}
		}
		w.announce(w.node.Tip().MsgBlock())
		w.flag("long-chain")
	}
	if rapid.Bool().Draw(t, "syncedBeforeRestart") {
		w.deliverAll(t)
	}
	w.finishTasks(t)
	w.env.Queue = nil
	// restart with the real goroutines
	if err := w.env.StopWallet(); err != nil {
		t.Fatalf("HARNESS-ERROR: %v", err)
	}
	phase = "closed"
	if err := w.env.Open(false); err != nil {
		t.Fatalf("HARNESS: reopen: %v", err)
	}
	if err := w.env.W.Start(); err != nil {
		t.Fatalf("WalletManager.Start: %v", err)
	}
	phase = "live"
	H := w.env.H
	waitWorkerInit(t, w.env)

	// stop placement
	mode := rapid.SampledFrom([]string{"delay", "delay", "gate", "gate", "gate", "none", "none"}).Draw(t, "stopMode")
	gate := int64(0)
	if mode == "gate" {
		gate = ctl.Calls() + int64(rapid.IntRange(1, 120).Draw(t, "gateCall"))
	}
	// pile-ups: announcements may be held back over several steps of the burst and then handed to
	// the follower in one go while it is parked at its next database call, so that it finds several
	// tips queued at once (as after a long task section or a busy node)
	hold := rapid.IntRange(0, 2).Draw(t, "holdAnnouncements") == 0
	var pile atomic.Value // chan struct{}: the follower waits on it at its next database call
	ctl.OnCall = func(n int64, kind string) {
		who := backgroundCallerKind()
		if mode == "gate" && n >= gate && who != "" {
			l.startStop()
		}
		if who == "handle" {
			if ch, _ := pile.Load().(chan struct{}); ch != nil {
				select {
				case <-ch:
				case <-l.stopIssued:
				case <-time.After(10 * time.Second):
				}
			}
		}
	}

	// handOver gives the queued announcements to the running follower (what the node's listener thread
	// does); with park the follower is held at its next database call meanwhile, so that it finds them
	// queued together
	inflight := false
	handOver := func(park bool) {
		var release chan struct{}
		if park && len(w.env.Queue) >= 2 {
			release = make(chan struct{})
			pile.Store(release)
			w.flag("pile-up-of-announcements")
		}
		for _, b := range w.env.Queue {
			sent := make(chan struct{})
			go func() { H.OnBlockConnected(b); close(sent) }()
			select {
			case <-sent:
				inflight = true
			case <-time.After(5 * time.Second):
				t.Fatalf("HARNESS-ERROR: OnBlockConnected blocked for 5 s (queue full?)")
			}
			l.logf("announced h=%d", b.Header.Height)
		}
		if release != nil {
			time.Sleep(200 * time.Microsecond)
			pile.Store((chan struct{})(nil))
			close(release)
		}
		w.env.Queue = nil
	}

	// the burst
	burst := rapid.SliceOfN(rapid.SampledFrom([]string{"blocks", "blocks", "import", "remove", "reorg", "importStorm", "pileUp"}), 1, 4).Draw(t, "burst")
	for bi, op := range burst {
		stopping, parkFlush := false, false
		select {
		case <-l.stopIssued:
			stopping = true
		default:
		}
		if stopping {
			break // no new requests once the shutdown has begun
		}
		l.apiMu.RLock()
		switch op {
		case "blocks":
			k := rapid.IntRange(1, 4).Draw(t, "k")
			for i := 0; i < k; i++ {
				w.actMine(t, true)
			}
		case "pileUp":
			// several tips, possibly ending with a reorganisation to a branch that is not longer, reach
			// the follower while it is busy with the first of them
			for i := rapid.IntRange(1, 3).Draw(t, "pileBlocks"); i > 0; i-- {
				w.actMine(t, true)
			}
			if rapid.IntRange(0, 2).Draw(t, "pileReorg") > 0 {
				if rapid.Bool().Draw(t, "pileEqual") {
					w.forcedEqualLength = true
					w.flag("equal-length-reorg-in-burst")
				}
				w.actReorg(t)
				w.forcedEqualLength = false
			}
			parkFlush = true
		case "reorg":
			if w.node.Height() >= 1 {
				if rapid.IntRange(0, 2).Draw(t, "equalLength") == 0 {
					w.forcedEqualLength = true // the node's best chain is chosen by capacity, not by height
					w.flag("equal-length-reorg-in-burst")
				}
				w.actReorg(t)
				w.forcedEqualLength = false
			}
		case "import":
			size := []int{16, 24, 32}[rapid.IntRange(0, 2).Draw(t, "entSize2")]
			ent := rapid.SliceOfN(rapid.Byte(), size, size).Draw(t, "entropy2")
			keys, _ := sim.EntropyFor(ent, "pass9Xzz")
			if keys == nil {
				l.apiMu.RUnlock()
				continue
			}
			dup := false
			for _, id := range l.accepted {
				dup = dup || id == keys.ID
			}
			if dup {
				l.apiMu.RUnlock()
				continue
			}
			_, err := w.env.W.ImportWalletWithMnemonic(&keystore.WalletParams{Mnemonic: keys.Mnemonic, PrivatePassphrase: []byte(keys.Pass), Remarks: "late", AddressGapLimit: 20})
			if err == nil {
				l.accepted = append(l.accepted, keys.ID)
				inflight = true
				l.logf("import %s accepted", keys.ID[:10])
			} else {
				l.logf("import -> %v", err)
			}
		case "importStorm":
			// several imports back to back; in half of the cases the node has just reorganised and the
			// follower has not been told yet, so the first rescan keeps asking to be retried ("continuable")
			// while the others are accepted. The service may refuse some requests (too many tasks), but
			// every one it accepts must finish - also the one that is being worked on and re-queued.
			if w.node.Height() >= 2 && rapid.Bool().Draw(t, "stormAfterSilentReorg") {
				w.actReorg(t) // its announcement is handed to the follower after the storm (end of this step)
				w.flag("requests-while-a-rescan-waits-for-a-reorganisation")
			}
			for k := 0; k < 5; k++ {
				ent := rapid.SliceOfN(rapid.Byte(), 16, 16).Draw(t, "entropyStorm")
				keys, _ := sim.EntropyFor(ent, "pass9Xst")
				if keys == nil {
					continue
				}
				dup := false
				for _, id := range l.accepted {
					dup = dup || id == keys.ID
				}
				if dup {
					continue
				}
				if _, err := w.env.W.ImportWalletWithMnemonic(&keystore.WalletParams{Mnemonic: keys.Mnemonic, PrivatePassphrase: []byte(keys.Pass), Remarks: "storm", AddressGapLimit: 20}); err == nil {
					l.accepted = append(l.accepted, keys.ID)
					inflight = true
					l.logf("import %s accepted (storm)", keys.ID[:10])
				} else {
					l.logf("import (storm) -> %v", err)
				}
			}
		case "remove":
			if len(w.wallets) == 0 {
				l.apiMu.RUnlock()
				continue
			}
			m := w.wallets[rapid.IntRange(0, len(w.wallets)-1).Draw(t, "victim")]
			err := w.env.W.RemoveWallet(m.id, m.keys.Pass)
			if err == nil {
				l.removed = append(l.removed, m.id)
				inflight = true
				l.logf("remove %s accepted", m.id[:10])
				for i, x := range w.wallets {
					if x == m {
						w.wallets = append(w.wallets[:i], w.wallets[i+1:]...)
						break
					}
				}
			} else {
				l.logf("remove %s -> %v", m.id[:10], err)
			}
		}
		l.apiMu.RUnlock()
		if hold && !parkFlush && bi < len(burst)-1 {
			continue // keep them for later
		}
		handOver(hold || parkFlush)
	}
	// announcements still held back (the last step of the burst made no request) reach the follower now;
	// if the shutdown has begun they reach nobody - Start() will catch up with the node instead
	select {
	case <-l.stopIssued:
		w.env.Queue = nil
	default:
		handOver(hold)
	}
	delay := time.Duration(0)
	if mode == "delay" {
		delay = []time.Duration{0, 20 * time.Microsecond, 100 * time.Microsecond, 400 * time.Microsecond, 1500 * time.Microsecond, 5 * time.Millisecond, 20 * time.Millisecond}[rapid.IntRange(0, 6).Draw(t, "delay")]
		time.Sleep(delay)
		l.startStop()
	}
	if mode == "gate" {
		// the gate may never be reached (little database work in this burst): give it a moment, then stop anyway
		select {
		case <-l.stopIssued:
		case <-time.After(300 * time.Millisecond):
			l.startStop()
			mode = "gate-unreached"
		}
	}

	if mode != "none" {
		st := l.stateAtStop
		l.awaitStop(t, fmt.Sprintf("stop (%s, delay %v) with worker/follower %s", mode, delay, st))
		phase = "closed"
		ctl.OnCall = nil
		// the database must be closed: the directory opens again
		if err := w.env.Open(false); err != nil {
			t.Fatalf("after Stop returned the wallet database cannot be opened again (not closed?): %v", err)
		}
		if err := w.env.W.Start(); err != nil {
			t.Fatalf("WalletManager.Start after the stop: %v", err)
		}
		phase = "live"
		H = w.env.H
		waitWorkerInit(t, w.env)
		l.resetStop()
		busy := inflight && (st != "idle/idle")
		c20.Case(hkey(strings.Join(w.journal, "\n"), strings.Join(l.log, ";"), mode, delay, gate), busy, append([]string{"stop:" + mode, "at:" + st, fmt.Sprintf("burst:%d", len(burst))}, w.sortedFlags()...)...)
		if busy {
			c20.Sample("stop:"+mode+"/"+st, 1, map[string]interface{}{"burst": l.log, "mode": mode, "delay_us": delay.Microseconds(), "state_at_stop": st, "history": w.journal})
		}
	} else {
		c20.Case(hkey(strings.Join(w.journal, "\n"), strings.Join(l.log, ";"), "none"), inflight, append([]string{"stop:none", fmt.Sprintf("burst:%d", len(burst))}, w.sortedFlags()...)...)
	}
	// liveness: everything accepted finishes and the tip is reached without any further announcement
	// (every tip was announced to the running follower, or Start() has caught up with the node since)
	deadline := time.Now().Add(90 * time.Second)
	for {
		ok, why := l.converged()
		if ok {
			break
		}
		if time.Now().After(deadline) {
			ws, hs := guard.WorkerState(w.env.HandlerPtr()), guard.HandlerState(w.env.HandlerPtr())
			if ws == "busy" || hs == "busy" {
				// "busy" = not at one of the known parking places. Working, or parked somewhere else for good
				// (e.g. on a mutex the other goroutine holds while it waits for this one)? Three samples over
				// six seconds: both goroutines in a blocking primitive with unchanged stacks have not moved.
				hp := w.env.HandlerPtr()
				wst, wb, wstack := guard.BlockedAt(hp, "masswallet.worker")
				hst, hb, hstack := guard.BlockedAt(hp, "masswallet.handle")
				parked := wb && hb
				for k := 0; k < 2 && parked; k++ {
					time.Sleep(3 * time.Second)
					_, wb2, wstack2 := guard.BlockedAt(hp, "masswallet.worker")
					_, hb2, hstack2 := guard.BlockedAt(hp, "masswallet.handle")
					parked = wb2 && hb2 && wstack2 == wstack && hstack2 == hstack
				}
				if ok2, _ := l.converged(); parked && !ok2 {
					t.Fatalf("the follower and the background worker block each other: %s (worker %s [%s], follower %s [%s], both parked with unchanged stacks)\n  burst: %s\n  history:\n  %s\n%s",
						why, ws, wst, hs, hst, strings.Join(l.log, "; "), w.journalTail(12), wantedStacks(hp))
				}
				t.Fatalf("HARNESS-ERROR: not converged after 90 s but goroutines are still working (%s [%s] / %s [%s]): %s", ws, wst, hs, hst, why)
			}
			t.Fatalf("the running wallet does not finish accepted work: %s (worker %s, follower %s)\n  burst: %s\n  history:\n  %s\n%s",
				why, ws, hs, strings.Join(l.log, "; "), w.journalTail(12), wantedStacks(w.env.HandlerPtr()))
		}
		time.Sleep(2 * time.Millisecond)
	}
	// final idle stop must return as well
	l.startStop()
	l.awaitStop(t, "stop of the idle, converged wallet")
	phase = "closed"
}

func TestC20(t *testing.T) {
	t.Run("stop", rapid.MakeCheck(propC20))
}
