//go:build verif

package checks

import (
	"bytes"
	"encoding/hex"
	"fmt"
	"strings"
	"testing"

	"github.com/btcsuite/btcd/btcec"
	"github.com/massnetorg/mass-core/consensus"
	"github.com/massnetorg/mass-core/massutil"
	"github.com/massnetorg/mass-core/txscript"
	"github.com/massnetorg/mass-core/wire"
	pb "massnet.org/mass-wallet/api/proto"
	"pgregory.net/rapid"
	"verifharness/ev"
	"verifharness/sim"
)

// ---- C03: signing yields valid witnesses, alters nothing else, needs the right passphrase -----

var c03 = ev.Open("C03", "exploration",
	"rapid: wallets from generated mnemonics with coins on several addresses produced by a generated chain (standard, staking, old and "+
		"new binding, coinbase; confirmed and pending parents); generated transactions over 1..6 of the selected wallet's unspent outputs "+
		"(consensus sequences, 1..6 outputs, lock time, payload) x the six sighash flags x attempt sequences mixing the right passphrase "+
		"with wrong ones (edit distance 1, prefix, other wallet's, empty, over-long, non-alphabet bytes). Oracle: right passphrase => success, "+
		"returned bytes decode to the same transaction in every non-witness field, every input executes in a fresh consensus script engine "+
		"against the output it spends, and the witness signature verifies (ECDSA) under the public key the harness derived for that address "+
		"over the BIP-143-style digest; wrong passphrase => error, nil bytes, caller's transaction still unsigned, also right after a "+
		"success. Non-trivial = >=2 inputs from >=2 addresses, or a non-ALL flag, or a staking/binding/pending input, or an attempt "+
		"sequence with both outcomes (distinct by tx hash + flag + attempts).")

type hashCapture struct{ hash []byte }

func (h *hashCapture) GetSign(pub *btcec.PublicKey, hash []byte) (*btcec.Signature, error) {
	h.hash = append([]byte(nil), hash...)
	return nil, fmt.Errorf("capture only")
}

var sigFlags = map[string]txscript.SigHashType{
	"ALL": txscript.SigHashAll, "NONE": txscript.SigHashNone, "SINGLE": txscript.SigHashSingle,
	"ALL|ANYONECANPAY":    txscript.SigHashAll | txscript.SigHashAnyOneCanPay,
	"NONE|ANYONECANPAY":   txscript.SigHashNone | txscript.SigHashAnyOneCanPay,
	"SINGLE|ANYONECANPAY": txscript.SigHashSingle | txscript.SigHashAnyOneCanPay,
}

func cloneTx(tx *wire.MsgTx) *wire.MsgTx {
	b, _ := tx.Bytes(wire.Packet)
	var c wire.MsgTx
	c.SetBytes(b, wire.Packet)
	return &c
}

// sameNonWitness compares every non-witness field.
func sameNonWitness(a, b *wire.MsgTx) error {
	if a.Version != b.Version || a.LockTime != b.LockTime || !bytes.Equal(a.Payload, b.Payload) {
		return fmt.Errorf("version/locktime/payload changed")
	}
	if len(a.TxIn) != len(b.TxIn) || len(a.TxOut) != len(b.TxOut) {
		return fmt.Errorf("input/output count changed")
	}
	for i := range a.TxIn {
		if a.TxIn[i].PreviousOutPoint != b.TxIn[i].PreviousOutPoint || a.TxIn[i].Sequence != b.TxIn[i].Sequence {
			return fmt.Errorf("input %d changed", i)
		}
	}
	for i := range a.TxOut {
		if a.TxOut[i].Value != b.TxOut[i].Value || !bytes.Equal(a.TxOut[i].PkScript, b.TxOut[i].PkScript) {
			return fmt.Errorf("output %d changed", i)
		}
	}
	if a.TxHash() != b.TxHash() {
		return fmt.Errorf("transaction id changed")
	}
	return nil
}

type signCoin struct {
	c       *Coin
	pending bool
	addr    *sim.AddrKeys
}

func propC03(t *rapid.T) {
	useProfile(profSmall)
	nW := rapid.IntRange(1, 2).Draw(t, "wallets")
	// a third of the cases restore the wallets with internal (change-branch) addresses, which then
	// receive coins like any other address
	if rapid.IntRange(0, 2).Draw(t, "withInternal") == 0 {
		worldInternalHint = uint32(rapid.IntRange(1, 2).Draw(t, "internalIndex"))
	}
	w := newWorld(t, nW, 20, nil)
	worldInternalHint = 0
	defer w.close()
	w.c09mode = true
	w.allowNullData = false
	for _, m := range w.wallets {
		for i := 0; i < 2; i++ {
			if _, err := w.issueAddress(t, m, massutil.AddressClassWitnessV0); err != nil {
				t.Fatalf("NewAddress: %v", err)
			}
		}
	}
	blocks := rapid.IntRange(8, 20).Draw(t, "blocks")
	for i := 0; i < blocks; i++ {
		w.withChainChange(t, func() { w.actMine(t, true) })
	}
	// optionally a pending payment to the wallet (pending parent)
	if rapid.Bool().Draw(t, "withPending") {
		for i := 0; i < 2; i++ {
			w.tryMempool(t)
		}
	}
	m := w.wallets[rapid.IntRange(0, len(w.wallets)-1).Draw(t, "signer")]
	// now and then one pending transaction pays the signer twice (two outputs of the same unconfirmed
	// parent can then be spent together)
	var twin2 []wire.OutPoint
	if rapid.IntRange(0, 2).Draw(t, "doublePendingParent") == 0 {
		view := w.chainView(t)
		next := w.node.Height() + 1
		for _, c := range view.live() {
			if w.ownedByAny(c) || c.Class != clsStd || c.Value < 1000000 || !spendableAt(c, next) || !w.coinAllowed(c) || len(w.pendingSpenders(c.Op)) > 0 {
				continue
			}
			ptx := wire.NewMsgTx()
			ptx.AddTxIn(sim.Spend(c.Op.Hash, c.Op.Index, requiredSequence(c)))
			a0 := m.issued[0].Hash
			a1 := m.issued[len(m.issued)-1].Hash
			ptx.AddTxOut(wire.NewTxOut(c.Value/2, sim.StdScript(a0)))
			ptx.AddTxOut(wire.NewTxOut(c.Value/2-1000, sim.StdScript(a1)))
			ptx.Payload = []byte{0xc3}
			if err := w.env.H.VerifProcessTx(ptx); err != nil {
				t.Fatalf("unconfirmed payment to the wallet refused: %v", err)
			}
			h := ptx.TxHash()
			w.pending[h], w.everSeen[h] = ptx, ptx
			twin2 = []wire.OutPoint{{Hash: h, Index: 0}, {Hash: h, Index: 1}}
			w.flag("two-outputs-of-one-pending-parent")
			break
		}
	}
	if _, err := w.env.W.UseWallet(m.id); err != nil {
		t.Fatalf("UseWallet: %v", err)
	}
	addrOf := func(h [32]byte) *sim.AddrKeys {
		for _, ia := range m.issued {
			if ia.Hash == h {
				return m.keys.Addr(ia.Index)
			}
		}
		for _, ia := range m.internal {
			if ia.Hash == h {
				return m.keys.AddrInternal(ia.Index)
			}
		}
		return nil
	}
	view := w.chainView(t)
	pendSpent := map[wire.OutPoint]bool{}
	for _, tx := range w.pending {
		for _, in := range tx.TxIn {
			pendSpent[in.PreviousOutPoint] = true
		}
	}
	var coins []signCoin
	for _, c := range walletCoins(view, m.owns) {
		if c.Value > 0 {
			coins = append(coins, signCoin{c: c, addr: addrOf(c.Hash)})
		}
	}
	for _, h := range w.pendingOrder() {
		for i, o := range w.pending[h].TxOut {
			cls, hh, p, tg := classify(o.PkScript)
			if cls == clsStd && m.owns[hh] && o.Value > 0 {
				coins = append(coins, signCoin{c: &Coin{Op: wire.OutPoint{Hash: h, Index: uint32(i)}, Value: o.Value, Script: o.PkScript,
					Height: w.node.Height() + 1, Class: cls, Hash: hh, Period: p, Target: tg}, pending: true, addr: addrOf(hh)})
			}
		}
	}
	if len(coins) == 0 {
		c03.Label("no-coins", 1)
		return
	}
	nIn := rapid.IntRange(1, min(6, len(coins))).Draw(t, "nIn")
	perm := rapid.Permutation(coins).Draw(t, "coinOrder")
	ins := perm[:nIn]
	if len(twin2) == 2 && rapid.Bool().Draw(t, "spendBothOutputs") {
		// make sure both outputs of the pending parent are among the inputs
		var both, rest []signCoin
		for _, sc := range perm {
			if sc.c.Op == twin2[0] || sc.c.Op == twin2[1] {
				both = append(both, sc)
			} else {
				rest = append(rest, sc)
			}
		}
		if len(both) == 2 {
			k := rapid.IntRange(0, min(3, len(rest))).Draw(t, "extraIns")
			ins = append(append([]signCoin{}, rest[:k]...), both...)
			if rapid.Bool().Draw(t, "bothFirst") {
				ins = append(append([]signCoin{}, both...), rest[:k]...)
			}
			nIn = len(ins)
		}
	}
	flagName := rapid.SampledFrom([]string{"ALL", "NONE", "SINGLE", "ALL|ANYONECANPAY", "NONE|ANYONECANPAY", "SINGLE|ANYONECANPAY"}).Draw(t, "flag")
	hashType := sigFlags[flagName]
	tx := wire.NewMsgTx()
	var total int64
	addrs := map[string]bool{}
	special := false
	for _, sc := range ins {
		tx.AddTxIn(sim.Spend(sc.c.Op.Hash, sc.c.Op.Index, requiredSequence(sc.c)))
		total += sc.c.Value
		addrs[sc.addr.Std] = true
		if sc.c.Class != clsStd || sc.pending {
			special = true
		}
	}
	nOut := rapid.IntRange(1, 6).Draw(t, "nOut")
	if strings.HasPrefix(flagName, "SINGLE") && nOut < nIn {
		nOut = nIn // documented precondition of SINGLE: one output per signed input
	}
	for i := 0; i < nOut; i++ {
		v := total / int64(nOut+1)
		if v <= 0 {
			v = 1
		}
		var h [32]byte
		if rapid.Bool().Draw(t, "outOwn") {
			h = m.issued[rapid.IntRange(0, len(m.issued)-1).Draw(t, "outAddr")].Hash
		} else {
			h = w.strangers[rapid.IntRange(0, 2).Draw(t, "outStranger")]
		}
		tx.AddTxOut(wire.NewTxOut(v, sim.StdScript(h)))
	}
	tx.LockTime = uint64(rapid.SampledFrom([]int{0, 0, 1, 500000000, 1 << 40}).Draw(t, "lockTime"))
	tx.Payload = rapid.SliceOfN(rapid.Byte(), 0, 40).Draw(t, "payload")
	unsigned := cloneTx(tx)

	right := m.keys.Pass
	wrongs := []string{right + "x", right[:len(right)-1], strings.ToUpper(right), "", strings.Repeat("p", 41), "\x00\xff\xfe", " " + right, right + " "}
	if len(w.wallets) > 1 {
		for _, o := range w.wallets {
			if o != m {
				wrongs = append(wrongs, o.keys.Pass)
			}
		}
	}
	nAtt := rapid.IntRange(1, 4).Draw(t, "attempts")
	var lastSigned *wire.MsgTx
	var pattern []string
	sawOK, sawFail := false, false
	for a := 0; a < nAtt; a++ {
		useRight := rapid.Bool().Draw(t, "rightPass")
		pass := right
		if !useRight {
			pass = rapid.SampledFrom(wrongs).Draw(t, "wrongPass")
		}
		work := cloneTx(unsigned)
		start := "unsigned"
		if lastSigned != nil && rapid.IntRange(0, 2).Draw(t, "fromSigned") == 0 {
			// the transaction as it came back from an earlier successful attempt: it carries witnesses
			// already, and is signed again (a wrong passphrase must still be refused)
			work, start = cloneTx(lastSigned), "signed-before"
			w.flag("resign-a-signed-transaction")
		} else if rapid.IntRange(0, 5).Draw(t, "staleWitness") == 0 {
			// witnesses that do not belong to the transaction (left over from an edit): signing replaces them
			for _, in := range work.TxIn {
				in.Witness = wire.TxWitness{rapid.SliceOfN(rapid.Byte(), 0, 80).Draw(t, "staleSig"), rapid.SliceOfN(rapid.Byte(), 0, 40).Draw(t, "staleScript")}
			}
			start = "stale-witness"
			w.flag("sign-over-stale-witnesses")
		}
		var out []byte
		var err error
		if rapid.IntRange(0, 2).Draw(t, "viaAPI") == 0 {
			// the same request through the API handler (hex in, hex out; an empty flag means ALL)
			raw, _ := work.Bytes(wire.Packet)
			fl := flagName
			if fl == "ALL" && rapid.Bool().Draw(t, "emptyFlag") {
				fl = ""
			}
			var r *pb.SignRawTransactionResponse
			r, err = w.apiSrv(t).SignRawTransaction(bg, &pb.SignRawTransactionRequest{RawTx: hex.EncodeToString(raw), Flags: fl, Passphrase: pass})
			if err == nil {
				if !r.Complete {
					t.Fatalf("API SignRawTransaction succeeded but reports the transaction incomplete")
				}
				if out, err = hex.DecodeString(r.Hex); err != nil {
					t.Fatalf("API SignRawTransaction returned undecodable hex: %v", err)
				}
			} else if r != nil {
				t.Fatalf("API SignRawTransaction returned an error and a response (%d hex chars)", len(r.Hex))
			}
			w.flag("via-api")
		} else {
			out, err = w.env.W.SignRawTx([]byte(pass), flagName, work)
		}
		if !useRight {
			pattern = append(pattern, "wrong/"+start)
			sawFail = true
			if err == nil {
				t.Fatalf("SignRawTx accepted passphrase %q (right one is %q)", pass, right)
			}
			if out != nil {
				t.Fatalf("SignRawTx with a wrong passphrase returned %d bytes", len(out))
			}
			for i, in := range work.TxIn {
				if start == "unsigned" && in.Witness.PlainSize() != 0 && len(in.Witness) != 0 {
					t.Fatalf("SignRawTx with a wrong passphrase left a witness on input %d", i)
				}
			}
			continue
		}
		pattern = append(pattern, "right/"+start)
		sawOK = true
		if err != nil {
			t.Fatalf("SignRawTx(right passphrase, %s) failed: %v\n  inputs: %s\n  %s", flagName, err, describeIns(ins), w.journalTail(10))
		}
		var signed wire.MsgTx
		if err := signed.SetBytes(out, wire.Packet); err != nil {
			t.Fatalf("SignRawTx returned undecodable bytes: %v", err)
		}
		if err := sameNonWitness(unsigned, &signed); err != nil {
			t.Fatalf("SignRawTx altered the transaction: %v", err)
		}
		lastSigned = cloneTx(&signed)
		hc := txscript.NewTxSigHashes(&signed)
		for i, sc := range ins {
			wit := signed.TxIn[i].Witness
			if len(wit) != 2 {
				t.Fatalf("input %d: witness has %d items", i, len(wit))
			}
			flags := txscript.StandardVerifyFlags
			if !sc.pending && sc.c.Height >= consensus.MASSIP0002WarmUpHeight || sc.pending && w.node.Height()+1 >= consensus.MASSIP0002WarmUpHeight {
				flags |= txscript.ScriptMASSip2
			}
			vm, err := txscript.NewEngine(sc.c.Script, &signed, i, flags, nil, hc, sc.c.Value)
			if err != nil {
				t.Fatalf("input %d: engine: %v", i, err)
			}
			if err := vm.Execute(); err != nil {
				t.Fatalf("input %d (%s, flag %s): signed transaction fails the consensus script engine: %v\n  inputs: %s", i, sc.c.Class, flagName, err, describeIns(ins))
			}
			if !bytes.Equal(wit[1], sc.addr.Redeem) {
				t.Fatalf("input %d: witness script is not the 1-of-1 redeem script of address #%d", i, sc.addr.Index)
			}
			// ECDSA check under the harness-derived key
			sigScript := wit[0]
			if len(sigScript) < 10 || int(sigScript[0]) != len(sigScript)-1 {
				t.Fatalf("input %d: unexpected signature push %x", i, sigScript)
			}
			raw := sigScript[1:]
			if txscript.SigHashType(raw[len(raw)-1]) != hashType {
				t.Fatalf("input %d: signature hash type %#x want %#x", i, raw[len(raw)-1], hashType)
			}
			sig, err := btcec.ParseDERSignature(raw[:len(raw)-1], btcec.S256())
			if err != nil {
				t.Fatalf("input %d: signature does not parse: %v", i, err)
			}
			pub, err := btcec.ParsePubKey(sc.addr.Pub[:], btcec.S256())
			if err != nil {
				t.Fatalf("HARNESS: pubkey: %v", err)
			}
			cap := &hashCapture{}
			txscript.RawTxInWitnessSignature(&signed, hc, i, sc.c.Value, sc.addr.Redeem, hashType, pub, cap)
			if cap.hash == nil {
				t.Fatalf("HARNESS: digest not captured")
			}
			if !sig.Verify(cap.hash, pub) {
				t.Fatalf("input %d: signature does not verify under the key derived for address #%d (m/44'/coin'/1'/0/%d)", i, sc.addr.Index, sc.addr.Index)
			}
		}
	}
	nt := (nIn >= 2 && len(addrs) >= 2) || flagName != "ALL" || special || (sawOK && sawFail)
	labels := []string{"flag:" + flagName, fmt.Sprintf("inputs:%d", nIn), "attempts:" + strings.Join(pattern, ",")}
	for _, sc := range ins {
		l := "input:" + sc.c.Class.String()
		if sc.pending {
			l = "input:pending-parent"
		}
		labels = append(labels, l)
	}
	c03.Case(hkey(unsigned.TxHash().String(), flagName, strings.Join(pattern, ",")), nt, labels...)
	if nt {
		c03.Sample("flag:"+flagName, 1, map[string]interface{}{"inputs": describeIns(ins), "flag": flagName, "attempts": pattern, "outputs": nOut, "locktime": tx.LockTime})
	}
}

func describeIns(ins []signCoin) string {
	var s []string
	for _, sc := range ins {
		s = append(s, fmt.Sprintf("%s:%d(%s,h=%d,pending=%v,addr#%d)", sc.c.Op.Hash.String()[:8], sc.c.Op.Index, sc.c.Class, sc.c.Height, sc.pending, sc.addr.Index))
	}
	return strings.Join(s, " ")
}

func TestC03(t *testing.T) {
	t.Run("sign", rapid.MakeCheck(propC03))
}
