//go:build verif

package checks

import (
	"fmt"
	"github.com/massnetorg/mass-core/consensus"
	"sort"
	"strings"
	"testing"
	"time"

	"github.com/massnetorg/mass-core/massutil"
	"github.com/massnetorg/mass-core/wire"
	"massnet.org/mass-wallet/masswallet"
	"massnet.org/mass-wallet/masswallet/keystore"
	"pgregory.net/rapid"
	"verifharness/ev"
	"verifharness/guard"
	"verifharness/sim"
)

// ---- C07: a restored wallet recovers its full history, even while the chain moves -------------

var c07 = ev.Open("C07", "exploration",
	"rapid: instance A watches wallet W live through a generated history (C01 actions: addresses with gaps, standard/staking/binding "+
		"payments and spends, reorgs, lagging notifications); at a drawn moment instance B (fresh database, same node, caught up) imports W "+
		"from the mnemonic (index hint 0..issued) or from A's exported keystore; from then on the schedule interleaves B's rescan sections "+
		"with blocks, reorganisations below/above the rescan cursor, new payments and notifications delivered to A and B in generated "+
		"order (thorough: chains > 1000 blocks so the rescan spans several batches). Oracle: until finished B lists W as importing and "+
		"refuses to select it; at quiescence B's unspent outputs, balances, address used flags and staking/binding records equal A's "+
		"(differential) and the chain model. Non-trivial = a node change (block or reorg) between the import call and the end of the "+
		"rescan, or a multi-batch rescan (distinct by journal hash).")

// snapshot of the ledger observables of the selected wallet, for the A/B differential.
func ledgerSnapshot(t *rapid.T, wm *masswallet.WalletManager, id string) []string {
	if _, err := wm.UseWallet(id); err != nil {
		t.Fatalf("UseWallet(%s): %v", id, err)
	}
	var out []string
	wb, err := wm.WalletBalance(1, true)
	if err != nil {
		t.Fatalf("WalletBalance: %v", err)
	}
	out = append(out, fmt.Sprintf("balance total=%d spendable=%d wstaking=%d wbinding=%d", amt(wb.Total), amt(wb.Spendable), amt(wb.WithdrawableStaking), amt(wb.WithdrawableBinding)))
	utx, err := wm.GetUtxo(nil)
	if err != nil {
		t.Fatalf("GetUtxo: %v", err)
	}
	for addr, list := range utx {
		for _, u := range list {
			out = append(out, fmt.Sprintf("utxo %s %s:%d amount=%d height=%d confs=%d maturity=%d", addr, u.TxId, u.Vout, amt(u.Amount), u.BlockHeight, u.Confirmations, u.Maturity))
		}
	}
	sh, err := wm.GetStakingHistory(false)
	if err != nil {
		t.Fatalf("GetStakingHistory: %v", err)
	}
	for _, e := range sh {
		if e.BlockHeight != 0 {
			out = append(out, fmt.Sprintf("staking %s:%d h=%d amount=%d addr=%s period=%d spent=%v", e.TxHash, e.Index, e.BlockHeight, amt(e.Utxo.Amount), e.Utxo.Address, e.Utxo.FrozenPeriod, e.Utxo.Spent))
		}
	}
	bh, err := wm.GetBindingHistory(false)
	if err != nil {
		t.Fatalf("GetBindingHistory: %v", err)
	}
	for _, e := range bh {
		if e.BlockHeight != 0 {
			out = append(out, fmt.Sprintf("binding %s:%d h=%d amount=%d holder=%s target=%s spent=%v", e.TxHash, e.Index, e.BlockHeight, amt(e.Utxo.Amount), e.Utxo.Holder.EncodeAddress(), e.Utxo.BindingTarget.EncodeAddress(), e.Utxo.Spent))
		}
	}
	sort.Strings(out)
	return out
}

func usedAddresses(t *rapid.T, wm *masswallet.WalletManager, id string) []string {
	if _, err := wm.UseWallet(id); err != nil {
		t.Fatalf("UseWallet: %v", err)
	}
	list, err := wm.GetAddresses(massutil.AddressClassWitnessV0)
	if err != nil {
		t.Fatalf("GetAddresses: %v", err)
	}
	var out []string
	for _, a := range list {
		if a.Used {
			out = append(out, a.Address)
		}
	}
	sort.Strings(out)
	return out
}

func propC07(t *rapid.T) {
	useProfile(profSmall)
	// in a third of the cases a second wallet V lives on both instances from the start (B watches the
	// chain live for V), so that the restore of W on B runs next to a wallet that shares transactions with it
	nW := 1
	if rapid.IntRange(0, 2).Draw(t, "neighbourWallet") == 0 {
		nW = 2
	}
	// mostly the default gap limit; sometimes a small one, so that used addresses exactly gap-limit
	// apart (the furthest the live wallet can get) occur within a handful of addresses
	gap := uint32(rapid.SampledFrom([]int{20, 20, 20, 2, 3, 4}).Draw(t, "gapLimit"))
	w := newWorld(t, nW, gap, nil)
	defer w.close()
	w.allowNullData = true
	if gap != 20 {
		w.flag("small-gap-limit")
	}
	m := w.wallets[0]
	var v *mwallet
	var envB *sim.Env
	if nW == 2 {
		v = w.wallets[1]
		var err error
		envB, err = sim.NewEnv(w.node, gap, nil)
		if err != nil {
			t.Fatalf("HARNESS: %v", err)
		}
		defer envB.Close()
		if err := envB.StartStepped(); err != nil {
			t.Fatalf("HARNESS: %v", err)
		}
		if _, err := envB.W.ImportWalletWithMnemonic(&keystore.WalletParams{Mnemonic: v.keys.Mnemonic, PrivatePassphrase: []byte(v.keys.Pass), Remarks: "v", AddressGapLimit: gap}); err != nil {
			t.Fatalf("HARNESS: import of the neighbour wallet: %v", err)
		}
		for n := 0; n < 100; n++ {
			if ok, _ := envB.W.CheckReady(v.id); ok {
				break
			}
			if _, err := envB.ServeWorker(20 * time.Second); err != nil {
				t.Fatalf("HARNESS: %v", err)
			}
		}
		w.peers = []*sim.Env{envB}
		w.flag("neighbour-wallet-on-restoring-instance")
	}
	// phase 1: A watches live
	long := rapid.IntRange(0, 7).Draw(t, "longChain") == 0 || (ev.Thorough() && rapid.IntRange(0, 4).Draw(t, "longChainT") == 0)
	n1 := rapid.IntRange(6, 28).Draw(t, "phase1")
	for i := 0; i < n1; i++ {
		acts1 := []string{"newAddress", "mine", "mine", "mine", "reorg", "deliver", "deliver"}
		if gap != 20 {
			acts1 = append(acts1, "newAddress", "payLast", "payLast")
		}
		switch rapid.SampledFrom(acts1).Draw(t, "act1") {
		case "payLast":
			// a payment to the most recently issued address: with a small gap limit this produces used
			// addresses that are the full gap limit apart
			ia := m.issued[len(m.issued)-1]
			if c := w.strangerCoin(t, 200000000); c != nil && w.quiescent(t) {
				script := sim.StdScript(ia.Hash)
				if ia.Class == massutil.AddressClassWitnessStaking {
					script = sim.StakingScript(ia.Hash, consensus.MinFrozenPeriod)
				}
				tx := wire.NewMsgTx()
				tx.AddTxIn(sim.Spend(c.Op.Hash, c.Op.Index, wire.MaxTxInSequenceNum))
				tx.AddTxOut(wire.NewTxOut(100000000, script))
				tx.AddTxOut(wire.NewTxOut(c.Value-100001000, sim.StdScript(w.strangers[1])))
				w.mineFixed(t, nil, []*wire.MsgTx{tx}, true)
				w.deliverAll(t)
				w.flag("payment-to-the-newest-address")
			} else {
				w.actMine(t, true)
			}
		case "newAddress":
			if len(m.issued) < 6 || (gap != 20 && len(m.issued) < 10) {
				class := uint16(massutil.AddressClassWitnessV0)
				if rapid.IntRange(0, 3).Draw(t, "stk") == 0 {
					class = massutil.AddressClassWitnessStaking
				}
				if _, err := w.issueAddress(t, m, class); err != nil && !(gap != 20 && err == keystore.ErrGapLimit) {
					t.Fatalf("NewAddress: %v", err)
				}
			}
		case "mine":
			w.actMine(t, true)
		case "reorg":
			// (with a small gap limit a reorganisation before the restore could take away the payment that
			// justified issuing a later, funded address: such an address is beyond any gap-limit scan by
			// construction, which is no defect of the restore - not generated)
			if w.node.Height() >= 1 && gap == 20 {
				w.actReorg(t)
			} else {
				w.actMine(t, true)
			}
		case "deliver":
			if len(w.env.Queue) > 0 {
				w.actDeliver(t)
			}
		}
		if long && i == n1/2 {
			// a long quiet stretch so that the rescan needs several 1000-block batches
			nq := 1100 + rapid.IntRange(0, 1200).Draw(t, "quiet")
			// in half of the cases the quiet stretch ends just below a batch boundary of the rescan (batches
			// of 1000 blocks) and blocks with payments follow at once, so that the wallet has history in the
			// last block of a batch, the first block of the next one and their neighbours
			atBoundary := rapid.Bool().Draw(t, "historyAtBatchBoundary")
			if atBoundary {
				target := 1000*rapid.IntRange(1, 2).Draw(t, "boundaryBatch") - rapid.IntRange(0, 2).Draw(t, "boundaryOffset")
				if h := int(w.node.Height()); target > h+50 {
					nq = target - h
				} else {
					atBoundary = false
				}
			}
			for j := 0; j < nq; j++ {
				blk := w.node.NewBlock(w.node.Tip(), nil, nil)
				if err := w.node.Attach(blk); err != nil {
					t.Fatalf("HARNESS: %v", err)
				}
			}
			w.announce(w.node.Tip().MsgBlock())
			w.flag("multi-batch-rescan")
			if atBoundary {
				w.deliverAll(t)
				for j := 0; j < 5; j++ {
					w.actMine(t, true)
				}
				w.flag("history-at-rescan-batch-boundary")
			}
		}
	}
	w.deliverAll(t)
	w.auditLedger(t)
	// phase 2: B imports
	if envB == nil {
		var err error
		envB, err = sim.NewEnv(w.node, gap, nil)
		if err != nil {
			t.Fatalf("HARNESS: %v", err)
		}
		defer envB.Close()
		if err := envB.StartStepped(); err != nil {
			t.Fatalf("HARNESS: %v", err)
		}
		if err := envB.CatchUp(); err != nil {
			t.Fatalf("fresh instance cannot catch up: %v", err)
		}
		w.peers = []*sim.Env{envB}
	} else {
		// B has been listening all along: let it process what is queued
		for len(envB.Queue) > 0 {
			envB.Deliver()
		}
	}
	how := rapid.SampledFrom([]string{"mnemonic", "mnemonic", "keystore"}).Draw(t, "importHow")
	if how == "mnemonic" {
		hint := uint32(rapid.IntRange(0, len(m.issued)).Draw(t, "hint"))
		if gap != 20 && rapid.Bool().Draw(t, "noHint") {
			hint = 0 // a bare mnemonic restore: everything has to be found by the gap-limit scan
		}
		ws, err := envB.W.ImportWalletWithMnemonic(&keystore.WalletParams{Mnemonic: m.keys.Mnemonic, PrivatePassphrase: []byte(m.keys.Pass), Remarks: "b", ExternalIndex: hint, AddressGapLimit: gap})
		if err != nil {
			t.Fatalf("ImportWalletWithMnemonic: %v", err)
		}
		if ws.WalletID != m.id {
			t.Fatalf("restored wallet id %s != %s", ws.WalletID, m.id)
		}
		w.logf("B imports mnemonic hint=%d", hint)
	} else {
		if _, err := w.env.W.UseWallet(m.id); err != nil {
			t.Fatalf("UseWallet: %v", err)
		}
		js, err := w.env.W.ExportWallet(m.id, m.keys.Pass)
		if err != nil {
			t.Fatalf("ExportWallet: %v", err)
		}
		if _, err := envB.W.ImportWallet(js, m.keys.Pass); err != nil {
			t.Fatalf("ImportWallet: %v", err)
		}
		w.logf("B imports keystore")
	}
	wB := &World{node: w.node, env: envB, flags: w.flags, gap: gap, tipAnnounced: true, pending: map[wire.Hash]*wire.MsgTx{}, everSeen: map[wire.Hash]*wire.MsgTx{}}
	defer wB.apiForget()
	importing := func() bool {
		ready, _, exists := wB.walletStatus(t, m.id)
		if !exists {
			t.Fatalf("B does not list the imported wallet")
		}
		return !ready
	}
	checkImporting := func() {
		if importing() {
			if _, err := envB.W.UseWallet(m.id); err != masswallet.ErrWalletUnready {
				t.Fatalf("wallet is still importing but UseWallet returned %v (want the unready error)", err)
			}
		}
	}
	if !importing() {
		t.Fatalf("wallet with chain history is reported ready immediately after the import call")
	}
	checkImporting()
	changesDuringImport := 0
	liveInterludes := 0
	// new payments during the rescan go to addresses B knows (an address A issued but that had no history
	// at restore time is not part of the restored wallet until the user asks for it again)
	amB, err := envB.W.VerifKeystore().GetAddrManagerByAccountID(m.id)
	if err != nil {
		t.Fatalf("B keystore: %v", err)
	}
	allIssued := m.issued
	if n := len(amB.ListAddresses()); n < len(m.issued) {
		m.issued = m.issued[:n]
	}
	// phase 3: interleave
	t.Repeat(map[string]func(*rapid.T){
		"serveB": func(t *rapid.T) {
			if !importing() {
				t.Skip("import finished")
			}
			ok, err := envB.ServeWorker(20e9)
			if err != nil || !ok {
				t.Fatalf("import pending but the worker did not run a section (ok=%v err=%v)", ok, err)
			}
			w.logf("B import section (importing=%v)", importing())
		},
		"mine": func(t *rapid.T) {
			if importing() {
				changesDuringImport++
			}
			w.actMine(t, true)
		},
		"reorg": func(t *rapid.T) {
			if w.node.Height() < 1 {
				t.Skip("nothing to reorganise")
			}
			if importing() {
				changesDuringImport++
				w.flag("reorg-during-import")
			}
			w.actReorg(t)
		},
		"reorgAtCursor": func(t *rapid.T) {
			// replace the chain from (about) the height the rescan has reached
			if !importing() {
				t.Skip("import finished")
			}
			cursor := uint64(0)
			wl, err := envB.W.Wallets()
			if err != nil {
				t.Fatalf("Wallets: %v", err)
			}
			for _, s := range wl {
				if s.WalletID == m.id {
					cursor = s.Status.SyncedHeight
				}
			}
			tip := w.node.Height()
			if cursor == 0 || cursor >= tip {
				t.Skip("rescan cursor not inside the chain")
			}
			lowest := int64(cursor) + int64(rapid.SampledFrom([]int{0, 0, 0, 1, -1, 2}).Draw(t, "aboveCursor"))
			if lowest < 1 || lowest > int64(tip) {
				t.Skip("out of range")
			}
			changesDuringImport++
			w.flag("reorg-at-rescan-cursor")
			w.logf("reorg replacing heights >= %d (rescan cursor %d)", lowest, cursor)
			w.forcedReorgDepth = int(int64(tip) - lowest + 1)
			w.actReorg(t)
		},
		"liveInterludeB": func(t *rapid.T) {
			// B is stopped, optionally misses many blocks, comes back through the REAL Start() (catch-up
			// loop - with its fast-forward branch when no wallet is ready and it is > 2000 blocks behind -
			// and both goroutines, so the rescan runs on its own), is stopped again at a drawn moment and
			// continues in stepped mode.
			if liveInterludes >= 2 {
				t.Skip("enough restarts")
			}
			liveInterludes++
			wasImporting := importing()
			if err := envB.StopWallet(); err != nil {
				t.Fatalf("HARNESS-ERROR: %v", err)
			}
			envB.Queue = nil
			if (ev.Thorough() || rapid.IntRange(0, 3).Draw(t, "longGapQuick") == 0) && rapid.Bool().Draw(t, "longGap") {
				ng := 2050 + rapid.IntRange(0, 300).Draw(t, "gapBlocks")
				for j := 0; j < ng; j++ {
					blk := w.node.NewBlock(w.node.Tip(), nil, nil)
					if err := w.node.Attach(blk); err != nil {
						t.Fatalf("HARNESS: %v", err)
					}
				}
				w.actMine(t, false)
				w.actMine(t, true)
				envB.Queue = nil
				w.flag("restart-more-than-2000-behind")
				if wasImporting {
					w.flag("start-fast-forward-branch")
				}
				changesDuringImport++
			}
			if err := envB.Open(false); err != nil {
				t.Fatalf("B does not open after a stop: %v", err)
			}
			if err := envB.W.Start(); err != nil {
				t.Fatalf("B: WalletManager.Start: %v\n  %s", err, w.journalTail(60))
			}
			if s, err := envB.W.SyncedTo(); err != nil || s != w.node.Height() {
				t.Fatalf("B: after Start() the wallet is synced to %d (%v), the node is at %d", s, err, w.node.Height())
			}
			time.Sleep(time.Duration(rapid.SampledFrom([]int{0, 0, 200, 1000, 5000, 30000}).Draw(t, "liveMicros")) * time.Microsecond)
			o := guard.Call(40*time.Second, func() { envB.W.Stop() })
			if o.Kind != "done" {
				t.Fatalf("B: WalletManager.Stop() did not return (%s) while the restore was running\n%s", o.Kind, o.Stack)
			}
			if err := envB.Open(false); err != nil {
				t.Fatalf("B does not open after Stop(): %v", err)
			}
			if err := envB.StartStepped(); err != nil {
				t.Fatalf("HARNESS: %v", err)
			}
			wB.env = envB
			w.flag("live-interlude")
			cur := uint64(0)
			if wl, err := envB.W.Wallets(); err == nil {
				for _, s := range wl {
					if s.WalletID == m.id {
						cur = s.Status.SyncedHeight
					}
				}
			}
			w.logf("B live interlude: tip %d, importing=%v, rescan cursor %d", w.node.Height(), importing(), cur)
		},
		"deliverA": w.actDeliver,
		"deliverB": func(t *rapid.T) {
			if len(envB.Queue) == 0 {
				t.Skip("no queued notification")
			}
			h := envB.Queue[0].Header.Height
			_, err := envB.Deliver()
			w.logf("B deliver h=%d -> %v", h, err)
		},
		"": func(t *rapid.T) { checkImporting() },
	})
	// converge
	m.issued = allIssued
	w.deliverAll(t)
	for len(envB.Queue) > 0 {
		envB.Deliver()
	}
	t.Logf("history before convergence:\n  %s", w.journalTail(400))
	wB.finishTasks(t)
	if !w.tipAnnounced {
		w.actMine(t, true)
		w.deliverAll(t)
		for len(envB.Queue) > 0 {
			envB.Deliver()
		}
	}
	// B's model: the addresses it discovered
	infoB, err := envB.W.UseWallet(m.id)
	if err != nil {
		t.Fatalf("UseWallet on B after the import finished: %v", err)
	}
	mB := &mwallet{keys: m.keys, id: m.id, owns: map[[32]byte]bool{}}
	for i := uint32(0); i < uint32(infoB.ExternalKeyCount); i++ {
		a := m.keys.Addr(i)
		mB.issued = append(mB.issued, issuedAddr{Index: i, Class: massutil.AddressClassWitnessV0, Addr: a.Std, Std: a.Std, Hash: a.ScriptHash})
		mB.owns[a.ScriptHash] = true
	}
	for _, ia := range m.issued {
		if w.fundedOnChain(ia.Hash, nil) && !mB.owns[ia.Hash] {
			t.Fatalf("restore did not rediscover funded address #%d %s (B holds %d addresses)", ia.Index, ia.Std, infoB.ExternalKeyCount)
		}
	}
	wB.wallets = []*mwallet{mB}
	if v != nil {
		wB.wallets = append(wB.wallets, v)
	}
	t.Logf("history:\n  %s", w.journalTail(40))
	w.auditLedger(t)
	wB.auditLedger(t)
	w.auditHistoriesOpt(t, true)
	wB.auditHistoriesOpt(t, true)
	// differential A vs B
	sa, sb := ledgerSnapshot(t, w.env.W, m.id), ledgerSnapshot(t, envB.W, m.id)
	if strings.Join(sa, "\n") != strings.Join(sb, "\n") {
		t.Fatalf("restored wallet differs from the wallet that watched the chain live:\n  live:     %s\n  restored: %s\n  %s", strings.Join(sa, "\n            "), strings.Join(sb, "\n            "), w.journalTail(30))
	}
	if v != nil {
		va, vb := ledgerSnapshot(t, w.env.W, v.id), ledgerSnapshot(t, envB.W, v.id)
		if strings.Join(va, "\n") != strings.Join(vb, "\n") {
			t.Fatalf("the neighbour wallet on the restoring instance differs from the same wallet on the live instance:\n  live:      %s\n  restoring: %s\n  %s", strings.Join(va, "\n             "), strings.Join(vb, "\n             "), w.journalTail(30))
		}
	}
	ua, ub := usedAddresses(t, w.env.W, m.id), usedAddresses(t, envB.W, m.id)
	if strings.Join(ua, ",") != strings.Join(ub, ",") {
		t.Fatalf("addresses with history differ: live %v, restored %v\n  %s", ua, ub, w.journalTail(30))
	}
	flags := w.sortedFlags()
	nt := changesDuringImport > 0 || w.flags["multi-batch-rescan"]
	c07.Case(hkey(strings.Join(w.journal, "\n")), nt, append(flags, "import:"+how)...)
	if nt {
		c07.Sample(strings.Join(flags, "+"), 1, w.journal)
	}
}

func TestC07(t *testing.T) {
	t.Run("restore", rapid.MakeCheck(propC07))
}
