//go:build verif

package checks

import (
	"fmt"
	"math"
	"strings"
	"testing"

	"github.com/massnetorg/mass-core/consensus"
	"github.com/massnetorg/mass-core/massutil"
	"github.com/massnetorg/mass-core/wire"
	"massnet.org/mass-wallet/api"
	pb "massnet.org/mass-wallet/api/proto"
	"massnet.org/mass-wallet/config"
	"massnet.org/mass-wallet/masswallet/keystore"
	"pgregory.net/rapid"
	"verifharness/ev"
	"verifharness/sim"
)

// ---- C12: addresses are issued once, in order, durably, and stay rediscoverable -----------------

var c12 = ev.Open("C12", "exploration",
	"rapid state machine: gap limit 2..8; actions newAddress(standard|staking), pay issued address j (standard payment to standard "+
		"addresses, staking payment to staking addresses), reorg that removes recent payments, restart of the wallet instance, audit; "+
		"finally a restore of the mnemonic in a fresh instance with index hint 0..issued. Oracle = issuance model: i-th issued address "+
		"== independent derivation at external index i (class form), pairwise distinct, listed after restart with used == best chain pays "+
		"it; NewAddress fails with the gap error exactly when none of the last gap-limit addresses has chain history, otherwise succeeds; "+
		"restore finds exactly the scan-rule prefix (until gap-limit consecutive unused) and therefore every funded address reachable "+
		"by that rule. Non-trivial = history with a gap-limit refusal, or a reorg removing a first payment, or a restart followed by a new "+
		"address (distinct by journal hash).")

// fundedOnChain reports whether the best chain has an output paying script hash h (any class) / in the given class.
func (w *World) fundedOnChain(h [32]byte, staking *bool) bool {
	for _, b := range w.node.Chain {
		for _, tx := range b.MsgBlock().Transactions {
			for _, o := range tx.TxOut {
				cls, hh, _, _ := classify(o.PkScript)
				if cls == clsOther || hh != h {
					continue
				}
				if staking == nil || (*staking == (cls == clsStaking)) {
					return true
				}
			}
		}
	}
	return false
}

// strangerCoin finds a mature plain coin no wallet owns.
func (w *World) strangerCoin(t *rapid.T, min int64) *Coin {
	view := w.chainView(t)
	for _, c := range view.live() {
		if c.Class == clsStd && !w.ownedByAny(c) && c.Value >= min && spendableAt(c, w.node.Height()+1) {
			return c
		}
	}
	return nil
}

func (w *World) c12Audit(t *rapid.T, m *mwallet) {
	if _, err := w.env.W.UseWallet(m.id); err != nil {
		t.Fatalf("UseWallet: %v", err)
	}
	list, err := w.env.W.GetAddresses(math.MaxUint16)
	if err != nil {
		t.Fatalf("GetAddresses: %v", err)
	}
	type ent struct {
		used  bool
		class uint16
	}
	got := map[string]ent{}
	for _, a := range list {
		if _, dup := got[a.Address]; dup {
			t.Fatalf("GetAddresses lists %s twice", a.Address)
		}
		got[a.Address] = ent{a.Used, a.AddressClass}
		dec, err := massutil.DecodeAddress(a.Address, config.ChainParams)
		if err != nil {
			t.Fatalf("GetAddresses lists undecodable %q", a.Address)
		}
		var h [32]byte
		copy(h[:], dec.ScriptAddress())
		if !m.owns[h] {
			t.Fatalf("GetAddresses lists %s which was never issued to this wallet", a.Address)
		}
	}
	seen := map[string]bool{}
	for i, ia := range m.issued {
		if seen[ia.Addr] {
			t.Fatalf("address %s issued twice (index %d)", ia.Addr, i)
		}
		seen[ia.Addr] = true
		e, ok := got[ia.Addr]
		if !ok {
			t.Fatalf("issued address #%d %s (class %d) is not listed by GetAddresses\n  %s", i, ia.Addr, ia.Class, w.journalTail(25))
		}
		isStaking := ia.Class == massutil.AddressClassWitnessStaking
		funded := w.fundedOnChain(ia.Hash, &isStaking)
		if !isStaking && !funded && w.fundedOnChain(ia.Hash, nil) {
			// a standard-class address whose key was paid in the staking form only: whether that is "a
			// payment to it" the statement leaves open (the wallet counts it) - listed it must stay
			continue
		}
		if e.used != funded {
			t.Fatalf("issued address #%d %s: used=%v, best chain pays it: %v\n  %s", i, ia.Addr, e.used, funded, w.journalTail(25))
		}
	}
	w.c12AuditAPI(t, m)
}

// c12CreateViaAPI issues an address through the API handler, which adds a limit of its own on the
// number of unused addresses per class (refusing earlier than the gap rule is allowed; issuing
// against the gap rule, skipping an index or issuing after a refusal is not).
func (w *World) c12CreateViaAPI(t *rapid.T, m *mwallet, class uint16, allowed bool, gap uint32) {
	if _, err := w.env.W.UseWallet(m.id); err != nil {
		t.Fatalf("UseWallet: %v", err)
	}
	n := uint32(len(m.issued))
	unused := 0
	for _, ia := range m.issued {
		if ia.Class != class {
			continue
		}
		isStaking := ia.Class == massutil.AddressClassWitnessStaking
		if !w.fundedOnChain(ia.Hash, &isStaking) {
			unused++
		}
	}
	st := w.env.Cfg.Wallet.Settings
	limit := int(st.AddressGapLimit - st.MaxUnusedStakingAddress)
	if class == massutil.AddressClassWitnessStaking {
		limit = int(st.MaxUnusedStakingAddress)
	}
	w.record(hstep{Kind: "newAddress", Wallet: m.id, Class: class})
	r, err := w.apiSrv(t).CreateAddress(bg, &pb.CreateAddressRequest{Version: int32(class)})
	w.flag("api-create-address")
	if err != nil {
		switch apiCode(err) {
		case api.ErrAPIUnusedAddressLimit:
			if unused < limit {
				t.Fatalf("API CreateAddress(class %d) refused with the unused-address limit although only %d of the allowed %d unused addresses of that class exist\n  %s", class, unused, limit, w.journalTail(25))
			}
			w.flag("api-unused-limit-refusal")
		case api.ErrAPIGapLimit:
			if allowed {
				t.Fatalf("API CreateAddress #%d refused with the gap-limit error although one of the last %d addresses has chain history (or fewer exist)\n  %s", n, gap, w.journalTail(25))
			}
			w.flag("gap-refusal")
		default:
			t.Fatalf("API CreateAddress(class %d): %v", class, err)
		}
		w.logf("newAddress via API refused: %v", err)
		return
	}
	if !allowed {
		t.Fatalf("API CreateAddress issued #%d %s although none of the last %d addresses has chain history\n  %s", n, r.Address, gap, w.journalTail(25))
	}
	if unused >= limit {
		// the API's own limit on unused addresses is not part of the statement (only the gap rule is):
		// issuing past it is recorded, not judged
		w.flag("api-issued-past-its-unused-limit")
	}
	k := m.keys.Addr(n)
	want := k.Std
	if class == massutil.AddressClassWitnessStaking {
		want = k.Staking
	}
	if r.Address != want {
		t.Fatalf("API CreateAddress #%d = %s, derivation at external index %d gives %s", n, r.Address, n, want)
	}
	m.issued = append(m.issued, issuedAddr{Index: n, Class: class, Addr: r.Address, Std: k.Std, Hash: k.ScriptHash})
	m.owns[k.ScriptHash] = true
	w.logf("newAddress via API w=%s class=%d -> %s", m.id[:8], class, r.Address)
}

// c12AuditAPI compares the API's per-class address listings with the wallet's own listing (which
// c12Audit has just compared with the model): same entries, flags and forms, every issued address of
// the class present.
func (w *World) c12AuditAPI(t *rapid.T, m *mwallet) {
	srv := w.apiSrv(t)
	type ent struct {
		used  bool
		class uint16
		std   string
	}
	all, err := w.env.W.GetAddresses(math.MaxUint16)
	if err != nil {
		t.Fatalf("GetAddresses: %v", err)
	}
	wantAll := map[string]ent{}
	for _, a := range all {
		wantAll[a.Address] = ent{a.Used, a.AddressClass, a.StdAddress}
	}
	gotAll := map[string]ent{}
	for _, class := range []uint16{massutil.AddressClassWitnessV0, massutil.AddressClassWitnessStaking} {
		r, err := srv.GetAddresses(bg, &pb.GetAddressesRequest{Version: int32(class)})
		if err != nil {
			t.Fatalf("API GetAddresses(%d): %v", class, err)
		}
		for _, d := range r.Details {
			if _, dup := gotAll[d.Address]; dup {
				t.Fatalf("API GetAddresses lists %s twice", d.Address)
			}
			if uint16(d.Version) != class {
				t.Fatalf("API GetAddresses(%d) lists %s of class %d", class, d.Address, d.Version)
			}
			gotAll[d.Address] = ent{d.Used, uint16(d.Version), d.StdAddress}
		}
		for i, ia := range m.issued {
			if ia.Class != class {
				continue
			}
			e, ok := gotAll[ia.Addr]
			if !ok {
				t.Fatalf("issued address #%d %s (class %d) is not listed by API GetAddresses(%d)\n  %s", i, ia.Addr, class, class, w.journalTail(25))
			}
			isStaking := class == massutil.AddressClassWitnessStaking
			if funded := w.fundedOnChain(ia.Hash, &isStaking); e.used != funded && (isStaking || funded || !w.fundedOnChain(ia.Hash, nil)) {
				t.Fatalf("API GetAddresses: issued address #%d %s used=%v, best chain pays it: %v\n  %s", i, ia.Addr, e.used, funded, w.journalTail(25))
			}
			if isStaking && e.std != ia.Std {
				t.Fatalf("API GetAddresses: staking address %s reports standard form %q, want %s", ia.Addr, e.std, ia.Std)
			}
		}
	}
	if len(gotAll) != len(wantAll) {
		t.Fatalf("API GetAddresses lists %d addresses over both classes, the wallet lists %d", len(gotAll), len(wantAll))
	}
	for a, g := range gotAll {
		if wnt, ok := wantAll[a]; !ok || wnt != g {
			t.Fatalf("API GetAddresses entry %s = %+v, the wallet's own listing has %+v (present=%v)", a, g, wnt, ok)
		}
	}
}

// scanRule is the restore rule of the statement: derive from index 0 until gap-limit consecutive
// unused addresses follow the last used one (never fewer than the hint); returns the address count.
func scanRule(used func(uint32) bool, gap, hint uint32) uint32 {
	if hint == 0 {
		hint = 1
	}
	next := uint32(0)
	for i := uint32(0); i < next+gap || i < hint+gap; i++ {
		if used(i) {
			next = i + 1
		}
	}
	if next < hint {
		next = hint
	}
	return next
}

func propC12(t *rapid.T) {
	useProfile(profSmall)
	gap := uint32(rapid.IntRange(2, 8).Draw(t, "gap"))
	w := newWorld(t, 1, gap, nil)
	defer w.close()
	m := w.wallets[0]
	// fund strangers so that payments can be ordinary transactions
	for i := 0; i < 7; i++ {
		w.mineFixed(t, []*wire.TxOut{wire.NewTxOut(5000000000, sim.StdScript(w.strangers[i%3]))}, nil, true)
	}
	w.deliverAll(t)
	restarted := false
	t.Repeat(map[string]func(*rapid.T){
		"newAddress": func(t *rapid.T) {
			class := uint16(massutil.AddressClassWitnessV0)
			if rapid.IntRange(0, 2).Draw(t, "stakingClass") == 0 {
				class = massutil.AddressClassWitnessStaking
			}
			n := uint32(len(m.issued))
			allowed := n < gap
			if !allowed {
				for i := n - gap; i < n; i++ {
					if w.fundedOnChain(m.issued[i].Hash, nil) {
						allowed = true
					}
				}
			}
			if len(m.issued) >= 30 {
				t.Skip("enough addresses")
			}
			if rapid.IntRange(0, 2).Draw(t, "viaAPI") == 0 {
				w.c12CreateViaAPI(t, m, class, allowed, gap)
				return
			}
			addr, err := w.issueAddress(t, m, class)
			if !allowed {
				if err == nil {
					t.Fatalf("NewAddress issued #%d %s although none of the last %d addresses has chain history\n  %s", n, addr, gap, w.journalTail(25))
				}
				if err != keystore.ErrGapLimit {
					t.Fatalf("NewAddress refused with %v, want the gap-limit error", err)
				}
				w.flag("gap-refusal")
				w.logf("newAddress refused (gap)")
				return
			}
			if err != nil {
				t.Fatalf("NewAddress #%d refused (%v) although one of the last %d addresses has chain history (or fewer than gap-limit addresses exist)\n  %s", n, err, gap, w.journalTail(25))
			}
			k := m.keys.Addr(n)
			want := k.Std
			if class == massutil.AddressClassWitnessStaking {
				want = k.Staking
			}
			if addr != want {
				t.Fatalf("NewAddress #%d = %s, derivation at external index %d gives %s", n, addr, n, want)
			}
			if restarted {
				w.flag("new-address-after-restart")
			}
		},
		"pay": func(t *rapid.T) {
			j := rapid.IntRange(0, len(m.issued)-1).Draw(t, "payIndex")
			ia := m.issued[j]
			c := w.strangerCoin(t, 200000000)
			if c == nil {
				w.mineFixed(t, []*wire.TxOut{wire.NewTxOut(5000000000, sim.StdScript(w.strangers[0]))}, nil, true)
				w.deliverAll(t)
				return
			}
			script := sim.StdScript(ia.Hash)
			if ia.Class == massutil.AddressClassWitnessStaking {
				script = sim.StakingScript(ia.Hash, consensus.MinFrozenPeriod)
			} else if rapid.IntRange(0, 3).Draw(t, "stakingFormOfStandardAddress") == 0 {
				// anybody can lock funds to the staking form of a key whose address was issued in the
				// standard class: the issued address stays what it is and stays listed
				script = sim.StakingScript(ia.Hash, consensus.MinFrozenPeriod)
				w.flag("standard-class-address-paid-in-staking-form")
			}
			tx := wire.NewMsgTx()
			tx.AddTxIn(sim.Spend(c.Op.Hash, c.Op.Index, wire.MaxTxInSequenceNum))
			both := 0
			if ia.Class == massutil.AddressClassWitnessStaking {
				// a staking-class address may be paid, in the same transaction, in its standard form as well
				// (before or after the staking output): the staking address has been paid either way
				both = rapid.IntRange(0, 2).Draw(t, "alsoStandardForm")
			}
			if both == 1 {
				tx.AddTxOut(wire.NewTxOut(30000000, sim.StdScript(ia.Hash)))
			}
			tx.AddTxOut(wire.NewTxOut(100000000, script))
			if both == 2 {
				tx.AddTxOut(wire.NewTxOut(30000000, sim.StdScript(ia.Hash)))
			}
			if both > 0 {
				w.flag("both-forms-of-one-key-in-one-transaction")
			}
			tx.AddTxOut(wire.NewTxOut(c.Value-130001000, sim.StdScript(w.strangers[1])))
			w.mineFixed(t, []*wire.TxOut{wire.NewTxOut(5000000000, sim.StdScript(w.strangers[2]))}, []*wire.MsgTx{tx}, true)
			w.deliverAll(t)
			w.logf("pay issued #%d (both forms: %d)", j, both)
		},
		"reorg": func(t *rapid.T) {
			h := int(w.node.Height())
			if h < 9 {
				t.Skip("keep the funding blocks")
			}
			d := rapid.IntRange(1, min(3, h-8)).Draw(t, "depth")
			firstRemoved := false
			for i := 0; i < d; i++ {
				tip := w.node.Tip()
				for _, tx := range tip.MsgBlock().Transactions {
					for _, o := range tx.TxOut {
						_, hh, _, _ := classify(o.PkScript)
						if m.owns[hh] {
							firstRemoved = true
						}
					}
				}
				if err := w.node.DetachTip(); err != nil {
					t.Fatalf("HARNESS: %v", err)
				}
			}
			for i := 0; i < d+rapid.IntRange(0, 1).Draw(t, "extra"); i++ {
				w.mineFixed(t, []*wire.TxOut{wire.NewTxOut(5000000000, sim.StdScript(w.strangers[0]))}, nil, false)
			}
			w.env.Announce(w.node.Tip().MsgBlock())
			w.tipAnnounced = true
			w.deliverAll(t)
			if firstRemoved {
				w.flag("reorg-removes-payment")
			}
			w.logf("reorg depth=%d", d)
		},
		"restart": func(t *rapid.T) {
			if err := w.env.Restart(); err != nil {
				t.Fatalf("restart: %v", err)
			}
			if err := w.env.StartStepped(); err != nil {
				t.Fatalf("HARNESS: %v", err)
			}
			restarted = true
			w.flag("restart")
			w.logf("restart")
		},
		"": func(t *rapid.T) { w.c12Audit(t, m) },
	})
	w.c12Audit(t, m)
	// restore in a fresh instance with an index hint
	hint := uint32(rapid.IntRange(0, len(m.issued)).Draw(t, "hint"))
	env2, err := sim.NewEnv(w.node, gap, nil)
	if err != nil {
		t.Fatalf("HARNESS: %v", err)
	}
	defer env2.Close()
	if err := env2.StartStepped(); err != nil {
		t.Fatalf("HARNESS: %v", err)
	}
	if err := env2.CatchUp(); err != nil {
		t.Fatalf("fresh instance cannot catch up with the node: %v", err)
	}
	ws, err := env2.W.ImportWalletWithMnemonic(&keystore.WalletParams{Mnemonic: m.keys.Mnemonic, PrivatePassphrase: []byte(m.keys.Pass),
		Remarks: "restored", ExternalIndex: hint, AddressGapLimit: gap})
	if err != nil {
		t.Fatalf("restore: %v", err)
	}
	if ws.WalletID != m.id {
		t.Fatalf("restore gives wallet id %s, original %s", ws.WalletID, m.id)
	}
	// finish the background import so the wallet can be selected
	w2 := &World{node: w.node, env: env2, flags: w.flags, gap: gap, tipAnnounced: true}
	w2.finishTasks(t)
	info, err := env2.W.UseWallet(m.id)
	if err != nil {
		t.Fatalf("UseWallet on restored wallet: %v", err)
	}
	used := func(i uint32) bool {
		k := m.keys.Addr(i)
		return k != nil && w.fundedOnChain(k.ScriptHash, nil)
	}
	want := scanRule(used, gap, hint)
	if uint32(info.ExternalKeyCount) != want {
		t.Fatalf("restore with hint %d, gap %d found %d addresses, the scan rule gives %d\n  %s", hint, gap, info.ExternalKeyCount, want, w.journalTail(30))
	}
	rl, err := env2.W.GetAddresses(math.MaxUint16)
	if err != nil {
		t.Fatalf("GetAddresses (restored): %v", err)
	}
	restored := map[string]bool{}
	for _, a := range rl {
		restored[a.Address] = a.Used
	}
	for i := uint32(0); i < want; i++ {
		k := m.keys.Addr(i)
		u, ok := restored[k.Std]
		if !ok {
			t.Fatalf("restored wallet does not list address #%d %s", i, k.Std)
		}
		std := false
		if u != (w.fundedOnChain(k.ScriptHash, &std) || w.fundedOnChain(k.ScriptHash, nil)) {
			t.Fatalf("restored wallet: address #%d used=%v, chain funded=%v\n  %s", i, u, w.fundedOnChain(k.ScriptHash, nil), w.journalTail(40))
		}
	}
	// every funded address the rule can reach is found
	for i, ia := range m.issued {
		if w.fundedOnChain(ia.Hash, nil) && uint32(i) < want {
			if !restored[ia.Std] && !restored[ia.Addr] {
				t.Fatalf("funded address #%d %s not rediscovered by the restore", i, ia.Addr)
			}
		}
	}
	flags := w.sortedFlags()
	nt := w.flags["gap-refusal"] || w.flags["reorg-removes-payment"] || w.flags["new-address-after-restart"]
	c12.Case(hkey(strings.Join(w.journal, "\n"), hint), nt, append(flags, fmt.Sprintf("gap:%d", gap))...)
	if nt {
		c12.Sample(strings.Join(flags, "+"), 1, map[string]interface{}{"gap": gap, "hint": hint, "journal": w.journal})
	}
}

func TestC12(t *testing.T) {
	t.Run("issuance", rapid.MakeCheck(propC12))
}
