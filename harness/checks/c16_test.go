package checks

import (
	"bytes"
	"context"
	"encoding/binary"
	"encoding/hex"
	"fmt"
	"testing"

	"github.com/massnetorg/mass-core/consensus"
	"github.com/massnetorg/mass-core/massutil"
	"github.com/massnetorg/mass-core/txscript"
	"github.com/massnetorg/mass-core/wire"
	"massnet.org/mass-wallet/api"
	pb "massnet.org/mass-wallet/api/proto"
	"massnet.org/mass-wallet/config"
	"massnet.org/mass-wallet/masswallet"
	"massnet.org/mass-wallet/masswallet/utils"
	"pgregory.net/rapid"
	"verifharness/ev"
)

// ---- C16: output-script classification agrees with consensus templates -----------------------

var c16 = ev.Open("C16", "exploration",
	"rapid-generated scripts: the three witness templates over random 32-byte hashes / frozen periods / 20- and 22-byte binding targets, "+
		"null-data, multisig, each optionally mutated (truncate, flip opcode, change push length, extend), and random bytes <= 300; oracle = "+
		"consensus txscript.GetScriptClass + ExtractPkScriptAddrs (class, addresses), independent byte-template predicate, builder round "+
		"trip; never panics. Non-trivial = template-derived or mutated script (not plain random bytes), distinct by script hash.")

// byteTemplate classifies by raw bytes, independent of the script parser.
func byteTemplate(s []byte) txscript.ScriptClass {
	if len(s) >= 34 && s[0] == 0x00 && s[1] == 0x20 {
		switch {
		case len(s) == 34:
			return txscript.WitnessV0ScriptHashTy
		case len(s) == 43 && s[34] == 0x08:
			return txscript.StakingScriptHashTy
		case len(s) == 55 && s[34] == 0x14, len(s) == 57 && s[34] == 0x16:
			return txscript.BindingScriptHashTy
		}
	}
	return txscript.NonStandardTy
}

func genScript(t *rapid.T) ([]byte, string) {
	hash := rapid.SliceOfN(rapid.Byte(), 32, 32).Draw(t, "hash")
	var s []byte
	var label string
	switch rapid.IntRange(0, 7).Draw(t, "tmpl") {
	case 0:
		s, label = append([]byte{0x00, 0x20}, hash...), "standard"
	case 1:
		var p uint64
		switch rapid.IntRange(0, 3).Draw(t, "periodKind") {
		case 0:
			p = rapid.Uint64Range(consensus.MinFrozenPeriod, consensus.MASSIP0001MaxValidPeriod).Draw(t, "period")
		case 1:
			p = rapid.SampledFrom([]uint64{0, 1, consensus.MinFrozenPeriod, consensus.MinFrozenPeriod - 1, consensus.MASSIP0001MaxValidPeriod, consensus.MASSIP0001MaxValidPeriod + 1, 0xfffffffe, 0xffffffff, 1 << 32, 1<<63 - 1, 1 << 63, ^uint64(0)}).Draw(t, "periodEdge")
		default:
			p = rapid.Uint64().Draw(t, "periodAny")
		}
		buf := make([]byte, 8)
		binary.LittleEndian.PutUint64(buf, p)
		s = append(append([]byte{0x00, 0x20}, hash...), append([]byte{0x08}, buf...)...)
		label = "staking"
	case 2:
		tgt := rapid.SliceOfN(rapid.Byte(), 20, 20).Draw(t, "target20")
		s = append(append([]byte{0x00, 0x20}, hash...), append([]byte{0x14}, tgt...)...)
		label = "binding-old"
	case 3:
		tgt := rapid.SliceOfN(rapid.Byte(), 22, 22).Draw(t, "target22")
		if rapid.IntRange(0, 3).Draw(t, "legalTarget") > 0 {
			tgt[20] = byte(rapid.IntRange(0, 1).Draw(t, "ptype"))
			tgt[21] = byte(rapid.IntRange(20, 200).Draw(t, "psize"))
		}
		s = append(append([]byte{0x00, 0x20}, hash...), append([]byte{0x16}, tgt...)...)
		label = "binding-new"
	case 4:
		data := rapid.SliceOfN(rapid.Byte(), 0, 90).Draw(t, "nulldata")
		b := txscript.NewScriptBuilder().AddOp(txscript.OP_RETURN)
		if len(data) > 0 {
			b.AddData(data)
		}
		s, _ = b.Script()
		label = "nulldata"
	case 5:
		n := rapid.IntRange(1, 3).Draw(t, "nkeys")
		b := txscript.NewScriptBuilder().AddInt64(int64(rapid.IntRange(1, n).Draw(t, "m")))
		for i := 0; i < n; i++ {
			k := rapid.SliceOfN(rapid.Byte(), 33, 33).Draw(t, "key")
			k[0] = 2 + k[0]&1
			b.AddData(k)
		}
		s, _ = b.AddInt64(int64(n)).AddOp(txscript.OP_CHECKMULTISIG).Script()
		label = "multisig"
	case 6:
		s, label = rapid.SliceOfN(rapid.Byte(), 0, 300).Draw(t, "random"), "random"
	case 7:
		// template with the hash pushed by a non-canonical push opcode (PUSHDATA1/2)
		s = append([]byte{0x00, 0x4c, 0x20}, hash...)
		if rapid.Bool().Draw(t, "pd2") {
			s = append([]byte{0x00, 0x4d, 0x20, 0x00}, hash...)
		}
		label = "noncanonical-push"
	}
	if label != "random" && rapid.IntRange(0, 2).Draw(t, "mutate") == 0 && len(s) > 0 {
		switch rapid.IntRange(0, 4).Draw(t, "mut") {
		case 0:
			s = s[:rapid.IntRange(0, len(s)-1).Draw(t, "cut")]
			label += "+truncated"
		case 1:
			i := rapid.IntRange(0, len(s)-1).Draw(t, "pos")
			s = append([]byte(nil), s...)
			s[i] ^= byte(rapid.IntRange(1, 255).Draw(t, "xor"))
			label += "+flipped"
		case 2:
			s = append(append([]byte(nil), s...), rapid.SliceOfN(rapid.Byte(), 1, 12).Draw(t, "ext")...)
			label += "+extended"
		case 3:
			i := rapid.IntRange(0, len(s)-1).Draw(t, "pos")
			s = append(append(append([]byte(nil), s[:i]...), byte(rapid.IntRange(0, 255).Draw(t, "ins"))), s[i:]...)
			label += "+inserted"
		case 4:
			if len(s) > 34 {
				s = append([]byte(nil), s...)
				s[34] = byte(rapid.SampledFrom([]int{0x07, 0x08, 0x09, 0x13, 0x14, 0x15, 0x16, 0x17, 0x4c}).Draw(t, "pushlen"))
				label += "+pushlen"
			}
		}
	}
	return s, label
}

func checkScriptReading(fatalf func(string, ...interface{}), s []byte) string {
	net := config.ChainParams
	class := txscript.GetScriptClass(s)
	if bt := byteTemplate(s); (bt != txscript.NonStandardTy) != (class == txscript.WitnessV0ScriptHashTy || class == txscript.StakingScriptHashTy || class == txscript.BindingScriptHashTy) || (bt != txscript.NonStandardTy && bt != class) {
		fatalf("HARNESS: byte template says %v, consensus library says %v for %x", bt, class, s)
	}
	var addrs []massutil.Address
	if class == txscript.WitnessV0ScriptHashTy || class == txscript.StakingScriptHashTy || class == txscript.BindingScriptHashTy {
		// (the library's extractor itself panics on multisig scripts with unparsable keys, so it is only consulted for the templates)
		_, addrs, _, _, _ = txscript.ExtractPkScriptAddrs(s, net)
	}
	checkAPIReading(fatalf, s, class, addrs)
	ps, err := utils.ParsePkScript(s, net)
	switch class {
	case txscript.WitnessV0ScriptHashTy, txscript.StakingScriptHashTy, txscript.BindingScriptHashTy:
		wantAddrs := 1
		if class == txscript.BindingScriptHashTy {
			wantAddrs = 2
		}
		if len(addrs) < wantAddrs {
			// consensus library cannot encode an address (illegal binding target): wallet must refuse, any error
			if err == nil {
				fatalf("ParsePkScript(%x): accepted although the consensus library extracts no address", s)
			}
			return "template-unencodable"
		}
		if err != nil {
			fatalf("ParsePkScript(%x) error %v, consensus class %v", s, err, class)
		}
		if ps.ScriptClass() != class {
			fatalf("ParsePkScript(%x) class %v want %v", s, ps.ScriptClass(), class)
		}
		hash := s[2:34]
		std, _ := massutil.NewAddressWitnessScriptHash(hash, net)
		if ps.StdEncodeAddress() != std.EncodeAddress() || !bytes.Equal(ps.StdScriptAddress(), hash) || ps.StdAddress().EncodeAddress() != std.EncodeAddress() {
			fatalf("ParsePkScript(%x): owner address %s want %s", s, ps.StdEncodeAddress(), std.EncodeAddress())
		}
		if ps.IsStaking() != (class == txscript.StakingScriptHashTy) || ps.IsBinding() != (class == txscript.BindingScriptHashTy) {
			fatalf("ParsePkScript(%x): IsStaking/IsBinding wrong", s)
		}
		switch class {
		case txscript.WitnessV0ScriptHashTy:
			if ps.Maturity() != 0 || ps.AddressClass() != massutil.AddressClassWitnessV0 {
				fatalf("ParsePkScript(%x): standard maturity %d class %d", s, ps.Maturity(), ps.AddressClass())
			}
			if addrs[0].EncodeAddress() != ps.StdEncodeAddress() {
				fatalf("ParsePkScript(%x): address %s, consensus %s", s, ps.StdEncodeAddress(), addrs[0].EncodeAddress())
			}
		case txscript.StakingScriptHashTy:
			period := binary.LittleEndian.Uint64(s[35:43])
			if ps.Maturity() != period+1 {
				fatalf("ParsePkScript(%x): staking maturity %d want period+1 = %d", s, ps.Maturity(), period+1)
			}
			if ps.AddressClass() != massutil.AddressClassWitnessStaking {
				fatalf("ParsePkScript(%x): staking address class %d", s, ps.AddressClass())
			}
			if ps.SecondEncodeAddress() != addrs[0].EncodeAddress() || !bytes.Equal(ps.SecondScriptAddress(), hash) {
				fatalf("ParsePkScript(%x): staking address %s, consensus %s", s, ps.SecondEncodeAddress(), addrs[0].EncodeAddress())
			}
		case txscript.BindingScriptHashTy:
			if addrs[0].EncodeAddress() != ps.StdEncodeAddress() {
				fatalf("ParsePkScript(%x): holder %s, consensus %s", s, ps.StdEncodeAddress(), addrs[0].EncodeAddress())
			}
			if ps.SecondEncodeAddress() != addrs[1].EncodeAddress() || !bytes.Equal(ps.SecondScriptAddress(), s[35:]) {
				fatalf("ParsePkScript(%x): binding target %s, consensus %s", s, ps.SecondEncodeAddress(), addrs[1].EncodeAddress())
			}
			wantMat := uint64(0)
			if len(s) == 57 {
				wantMat = consensus.MASSIP0002BindingLockedPeriod
			}
			if ps.Maturity() != wantMat || ps.AddressClass() != massutil.AddressClassWitnessV0 {
				fatalf("ParsePkScript(%x): binding maturity %d want %d", s, ps.Maturity(), wantMat)
			}
		}
		return "template"
	default:
		if err != utils.ErrUnsupportedScript {
			fatalf("ParsePkScript(%x): consensus class %v (not a wallet template) must read as unsupported (utils.ErrUnsupportedScript), got ps=%v err=%v", s, class, ps, err)
		}
		return "unsupported"
	}
}

// ---- the API's view of an output script (DecodeRawTransaction -> extractAddressInfos) ------------

var c16srv *api.APIServer

// checkAPIReading wraps the script into a transaction, lets the API handler decode it and compares
// type and address strings with the consensus library's reading. The handler may refuse scripts that
// are no wallet template; it must not panic and must not report addresses the script does not hold.
func checkAPIReading(fatalf func(string, ...interface{}), s []byte, class txscript.ScriptClass, addrs []massutil.Address) {
	if c16srv == nil {
		c16srv, _ = api.NewAPIServer(nil, nil, func() {}, &config.Config{})
	}
	tx := wire.NewMsgTx()
	tx.AddTxIn(wire.NewTxIn(&wire.OutPoint{Hash: wire.Hash{1}, Index: 0}, nil))
	tx.AddTxOut(wire.NewTxOut(12345678, s))
	raw, err := tx.Bytes(wire.Packet)
	if err != nil {
		return // scripts the wire codec itself refuses cannot reach the handler
	}
	r, err := c16srv.DecodeRawTransaction(context.Background(), &pb.DecodeRawTransactionRequest{Hex: hex.EncodeToString(raw)})
	template := class == txscript.WitnessV0ScriptHashTy || class == txscript.StakingScriptHashTy || class == txscript.BindingScriptHashTy
	wantAddrs := 1
	if class == txscript.BindingScriptHashTy {
		wantAddrs = 2
	}
	if !template || len(addrs) < wantAddrs {
		if err == nil {
			if len(r.Vout) != 1 || r.Vout[0].Type != uint32(class) || r.Vout[0].StakingAddress != "" || r.Vout[0].BindingTarget != "" || (!template && r.Vout[0].RecipientAddress != "") {
				fatalf("API DecodeRawTransaction(%x): script of consensus class %v (no wallet template / no encodable address) decoded as %+v", s, class, r.Vout)
			}
		}
		return
	}
	if err != nil {
		fatalf("API DecodeRawTransaction refused a transaction paying template script %x (class %v): %v", s, class, err)
	}
	if len(r.Vout) != 1 {
		fatalf("API DecodeRawTransaction(%x): %d outputs", s, len(r.Vout))
	}
	v := r.Vout[0]
	std, _ := massutil.NewAddressWitnessScriptHash(s[2:34], config.ChainParams)
	wantStaking, wantBinding := "", ""
	switch class {
	case txscript.StakingScriptHashTy:
		wantStaking = addrs[0].EncodeAddress()
	case txscript.BindingScriptHashTy:
		typ, size := "MASS", 0
		if tg := s[35:]; len(tg) == 22 {
			if tg[20] == 1 {
				typ = "Chia"
			}
			size = int(tg[21])
		}
		wantBinding = fmt.Sprintf("%s:%s:%d", addrs[1].EncodeAddress(), typ, size)
	}
	if v.Type != uint32(class) || v.RecipientAddress != std.EncodeAddress() || v.StakingAddress != wantStaking || v.BindingTarget != wantBinding ||
		v.ScriptHex != hex.EncodeToString(s) || v.Value != "0.12345678" || v.N != 0 {
		fatalf("API DecodeRawTransaction(%x): type %d recipient %q staking %q binding %q value %q, consensus says class %d owner %s staking %q binding %q", s,
			v.Type, v.RecipientAddress, v.StakingAddress, v.BindingTarget, v.Value, class, std.EncodeAddress(), wantStaking, wantBinding)
	}
}

func propC16Read(t *rapid.T) {
	s, label := genScript(t)
	out := checkScriptReading(t.Fatalf, s)
	c16.Case(hkey("s", s), label != "random", "script:"+label, "read:"+out, "script:"+label+":"+out)
	c16.Sample("script:"+label+":"+out, 1, hex.EncodeToString(s))
}

// builders read back exactly
func propC16Builders(t *rapid.T) {
	net := config.ChainParams
	hash := rapid.SliceOfN(rapid.Byte(), 32, 32).Draw(t, "hash")
	std, _ := massutil.NewAddressWitnessScriptHash(hash, net)
	stk, _ := massutil.NewAddressStakingScriptHash(hash, net)
	kind := rapid.IntRange(0, 3).Draw(t, "kind")
	switch kind {
	case 0:
		s, err := masswallet.PayToWitnessV0Address(std.EncodeAddress(), net)
		if err != nil {
			t.Fatalf("PayToWitnessV0Address(%s): %v", std.EncodeAddress(), err)
		}
		ps, err := utils.ParsePkScript(s, net)
		if err != nil || ps.StdEncodeAddress() != std.EncodeAddress() || ps.IsStaking() || ps.IsBinding() || ps.Maturity() != 0 {
			t.Fatalf("standard script for %s reads back as %v,%v", std.EncodeAddress(), ps, err)
		}
		// a staking address must not be accepted by the standard builder
		if _, err := masswallet.PayToWitnessV0Address(stk.EncodeAddress(), net); err == nil {
			t.Fatalf("PayToWitnessV0Address accepted staking address %s", stk.EncodeAddress())
		}
	case 1:
		period := rapid.Uint64Range(consensus.MinFrozenPeriod, consensus.MASSIP0001MaxValidPeriod).Draw(t, "period")
		s, err := txscript.PayToStakingAddrScript(stk, period)
		if err != nil {
			t.Fatalf("PayToStakingAddrScript: %v", err)
		}
		ps, err := utils.ParsePkScript(s, net)
		if err != nil || !ps.IsStaking() || ps.SecondEncodeAddress() != stk.EncodeAddress() || ps.StdEncodeAddress() != std.EncodeAddress() || ps.Maturity() != period+1 {
			t.Fatalf("staking script (%s, %d) reads back as %v,%v", stk.EncodeAddress(), period, ps, err)
		}
	case 2:
		tgt := rapid.SliceOfN(rapid.Byte(), 20, 20).Draw(t, "t20")
		s, err := txscript.PayToBindingScriptHashScript(hash, tgt)
		if err != nil {
			t.Fatalf("PayToBindingScriptHashScript: %v", err)
		}
		want, _ := massutil.NewAddressPubKeyHash(tgt, net)
		ps, err := utils.ParsePkScript(s, net)
		if err != nil || !ps.IsBinding() || ps.StdEncodeAddress() != std.EncodeAddress() || ps.SecondEncodeAddress() != want.EncodeAddress() || ps.Maturity() != 0 {
			t.Fatalf("old binding script reads back as %v,%v", ps, err)
		}
	case 3:
		tgt := rapid.SliceOfN(rapid.Byte(), 22, 22).Draw(t, "t22")
		tgt[20] = byte(rapid.IntRange(0, 1).Draw(t, "ptype"))
		tgt[21] = byte(rapid.IntRange(20, 200).Draw(t, "psize"))
		s, err := txscript.PayToBindingScriptHashScript(hash, tgt)
		if err != nil {
			t.Fatalf("PayToBindingScriptHashScript: %v", err)
		}
		want, _ := massutil.NewAddressBindingTarget(tgt, net)
		ps, err := utils.ParsePkScript(s, net)
		if err != nil || !ps.IsBinding() || ps.StdEncodeAddress() != std.EncodeAddress() || ps.SecondEncodeAddress() != want.EncodeAddress() || ps.Maturity() != consensus.MASSIP0002BindingLockedPeriod {
			t.Fatalf("new binding script reads back as %v,%v", ps, err)
		}
	}
	c16.Case(hkey("b", kind, hash), true, fmt.Sprintf("builder:%d", kind))
}

func TestC16(t *testing.T) {
	t.Run("regress", func(t *testing.T) {
		for _, h := range []string{"6a", "6a0100", "", "00", "0020", "51", "ff"} {
			s, _ := hex.DecodeString(h)
			out := checkScriptReading(t.Fatalf, s)
			c16.Case(hkey("s", s), true, "script:regress:"+out)
		}
	})
	t.Run("read", rapid.MakeCheck(propC16Read))
	t.Run("builders", rapid.MakeCheck(propC16Builders))
}

func FuzzC16(f *testing.F) {
	for _, h := range []string{"6a", "6a0100", "", "0020" + "11111111111111111111111111111111111111111111111111111111111111aa",
		"0020" + "11111111111111111111111111111111111111111111111111111111111111aa" + "080000010000000000",
		"0020" + "11111111111111111111111111111111111111111111111111111111111111aa" + "14" + "2222222222222222222222222222222222222222",
		"0020" + "11111111111111111111111111111111111111111111111111111111111111aa" + "16" + "22222222222222222222222222222222222222220020"} {
		s, _ := hex.DecodeString(h)
		f.Add(s)
	}
	f.Fuzz(func(t *testing.T, s []byte) {
		checkScriptReading(t.Fatalf, s)
	})
}
