//go:build verif

package checks

import (
	"context"
	"encoding/hex"
	"fmt"
	"math"
	"math/big"
	"sort"
	"strings"
	"testing"
	"time"

	"github.com/golang/protobuf/ptypes/empty"
	"github.com/massnetorg/mass-core/massutil"
	"github.com/massnetorg/mass-core/wire"
	"massnet.org/mass-wallet/api"
	pb "massnet.org/mass-wallet/api/proto"
	"massnet.org/mass-wallet/config"
	"massnet.org/mass-wallet/masswallet/keystore"
	"pgregory.net/rapid"
	"verifharness/ev"
	"verifharness/guard"
	"verifharness/ref"
	"verifharness/sim"
)

// ---- C19: no client request or chain event can crash or silently stall the wallet -------------

var c19 = ev.Open("C19", "exploration",
	"rapid: wallet states reached by short generated histories (no wallet selected, wallet importing, wallet being removed, coins "+
		"pending / spent / immature / staking / binding, reorged history) x sequences of wallet-facing APIServer calls whose arguments are "+
		"drawn from state-aware pools (own / foreign / spent / pending / unknown / malformed txids, in- and out-of-range output indexes, "+
		"own / other-wallet / other-class / garbage / over-long addresses, amount strings incl. malformed ones, valid / mutated / truncated / "+
		"non-hex transaction blobs, sighash flags, right / wrong / empty / over-long passphrases, known / unknown / malformed wallet ids, "+
		"mnemonics, empty maps and lists), interleaved with further blocks, reorgs and pending transactions delivered to the handler. "+
		"Oracle: every call returns (response or error) inside a guard - no panic, no FATAL exit, no stall - and every delivered chain "+
		"event is processed without a panic. Non-trivial = call whose arguments include a malformed / boundary value or that runs in a "+
		"non-ready wallet state (distinct by method + argument hash).")

type apiCtx struct {
	removed                []*mwallet // wallets removed during the case
	w                      *World
	srv                    *api.APIServer
	txHex                  []string // valid raw transaction hex blobs produced so far
	state                  string
	calls                  int
	nValidAddr, nValidTxid int
	errsBy                 map[string]int
}

func (a *apiCtx) pools(t *rapid.T) (txids []string, addrs []string, walletIDs []string) {
	w := a.w
	view := w.chainView(t)
	seen := map[string]bool{}
	add := func(s string) {
		if !seen[s] {
			seen[s] = true
			txids = append(txids, s)
		}
	}
	for i, c := range view.live() {
		if i%3 == 0 || w.ownedByAny(c) {
			add(c.Op.Hash.String())
		}
		if len(txids) > 12 {
			break
		}
	}
	for op := range view.spentBy {
		add(op.Hash.String())
		if len(txids) > 16 {
			break
		}
	}
	for h := range w.pending {
		add(h.String())
	}
	sort.Strings(txids)
	a.nValidTxid = len(txids)
	txids = append(txids, strings.Repeat("ab", 32), strings.Repeat("0", 64), "", "zz", strings.Repeat("z", 64), strings.Repeat("a", 63), strings.Repeat("a", 65), " "+strings.Repeat("1", 64))
	for _, m := range w.wallets {
		for _, ia := range m.issued {
			addrs = append(addrs, ia.Std)
			stk, _ := massutil.NewAddressStakingScriptHash(ia.Hash[:], config.ChainParams)
			addrs = append(addrs, stk.EncodeAddress())
		}
		walletIDs = append(walletIDs, m.id)
	}
	// a wallet that was removed (or is being removed) during this case: its id and addresses stay in the pools
	for _, m := range a.removed {
		for _, ia := range m.issued {
			addrs = append(addrs, ia.Std)
		}
		walletIDs = append(walletIDs, m.id)
	}
	st, _ := massutil.NewAddressWitnessScriptHash(w.strangers[0][:], config.ChainParams)
	addrs = append(addrs, st.EncodeAddress())
	a.nValidAddr = len(addrs)
	pk, _ := massutil.NewAddressPubKeyHash(w.strangers[0][:20], config.ChainParams)
	addrs = append(addrs, st.EncodeAddress(), pk.EncodeAddress(), "", "ms1qqgarbage", "notanaddress", strings.Repeat("m", 101), "ms1q"+strings.Repeat("q", 60), st.EncodeAddress()+" ", "tb1qw508d6qejxtdg4y5r3zarvary0c5xw7kxpjzsx")
	walletIDs = append(walletIDs, "", "ac10"+strings.Repeat("q", 38), strings.Repeat("x", 42), "ac1", strings.Repeat("a", 100))
	return
}

// pickBiased prefers the first nValid entries (well-formed values) two times out of three.
func pickBiased(t *rapid.T, label string, xs []string, nValid int) string {
	if nValid > 0 && nValid < len(xs) && rapid.IntRange(0, 2).Draw(t, label+"Valid") > 0 {
		return xs[rapid.IntRange(0, nValid-1).Draw(t, label+"V")]
	}
	return xs[rapid.IntRange(0, len(xs)-1).Draw(t, label)]
}

var amountPool = []string{"0.001", "0.5", "1", "2.5", "0.0001", "10", "0", "0.00000001", "123.456", "1000000", "206438400", "206438401", "", ".", "+5", "-1", "1e3", "abc", "0.000000001", "1.", ".1", " 1", "99999999999999999999", "0x10", "1,5"}

// stateAmounts derives amount strings from what the selected wallet holds right now: its spendable
// balance, its total and single coin values, each minus 0..4 times the minimum relay fee (the amounts
// at which the change of an automatic selection is zero, dust, or exactly the minimum).
func (a *apiCtx) stateAmounts() []string {
	var base []int64
	if wb, err := a.w.env.W.WalletBalance(1, true); err == nil {
		base = append(base, amt(wb.Spendable), amt(wb.Total))
	}
	if utx, err := a.w.env.W.GetUtxo(nil); err == nil {
		n := 0
		for _, list := range utx {
			for _, u := range list {
				if n < 3 {
					base = append(base, amt(u.Amount))
					n++
				}
			}
		}
	}
	var out []string
	for _, b := range base {
		for k := int64(0); k <= 4; k++ {
			if v := b - k*10000; v > 0 {
				out = append(out, ref.FormatAmount(big.NewInt(v)))
			}
		}
	}
	return out
}

func (a *apiCtx) genAmounts(t *rapid.T, addrs []string) map[string]string {
	if rapid.IntRange(0, 4).Draw(t, "stateAmount") == 0 {
		if sa := a.stateAmounts(); len(sa) > 0 && len(addrs) > 0 {
			return map[string]string{pickBiased(t, "amtAddr", addrs, a.nValidAddr): sa[rapid.IntRange(0, len(sa)-1).Draw(t, "stateAmt")]}
		}
	}
	n := rapid.IntRange(0, 3).Draw(t, "nAmounts")
	m := map[string]string{}
	for i := 0; i < n; i++ {
		m[pickBiased(t, "amtAddr", addrs, a.nValidAddr)] = pickBiased(t, "amtVal", amountPool, 6)
	}
	return m
}

func (a *apiCtx) genInputs(t *rapid.T, txids []string) []*pb.TransactionInput {
	n := rapid.IntRange(0, 3).Draw(t, "nInputs")
	var out []*pb.TransactionInput
	for i := 0; i < n; i++ {
		out = append(out, &pb.TransactionInput{TxId: pickBiased(t, "inTxid", txids, a.nValidTxid),
			Vout: uint32(rapid.SampledFrom([]int{0, 0, 1, 2, 5, 1000, 1 << 31}).Draw(t, "inVout"))})
	}
	return out
}

func (a *apiCtx) genHex(t *rapid.T) string {
	pool := append([]string{"", "00", "zz", "0a", strings.Repeat("ff", 40), "deadbeef"}, a.txHex...)
	s := rapid.SampledFrom(pool).Draw(t, "hex")
	if len(s) > 8 && rapid.IntRange(0, 2).Draw(t, "mutateHex") == 0 {
		b := []byte(s)
		switch rapid.IntRange(0, 3).Draw(t, "hexMut") {
		case 0:
			b = b[:rapid.IntRange(0, len(b)-1).Draw(t, "cut")]
		case 1:
			i := rapid.IntRange(0, len(b)-1).Draw(t, "pos")
			b[i] = "0123456789abcdef"[rapid.IntRange(0, 15).Draw(t, "nib")]
		case 2:
			b = append(b, []byte(rapid.SampledFrom([]string{"00", "ff", "0", "zz"}).Draw(t, "tail"))...)
		case 3:
			i := rapid.IntRange(0, len(b)-2).Draw(t, "pos2")
			b = append(b[:i], b[i+2:]...)
		}
		s = string(b)
	}
	return s
}

// callAPI draws one API call and runs it under the guard.
var c19methods = []string{"DecodeRawTransaction", "CreateRawTransaction", "CreateStakingTransaction", "CreateBindingTransaction",
	"AutoCreateTransaction", "GetTransactionFee", "TxHistory", "GetStakingHistory", "GetBindingHistory", "SignRawTransaction", "CreateAddress",
	"GetAddresses", "ValidateAddress", "GetWalletBalance", "GetAddressBalance", "UseWallet", "Wallets", "GetUtxo", "ImportWallet", "ImportMnemonic",
	"CreateWallet", "ExportWallet", "GetWalletMnemonic", "RemoveWalletWrongPass", "CreatePoolPkCoinbaseTransaction", "GetRawTransaction", "GetTxStatus",
	"GetClientStatus", "GetBestBlock", "GetBlockByHeight", "GetNetworkBinding", "CheckPoolPkCoinbase", "CheckTargetBinding", "SendRawTransaction"}

func (a *apiCtx) callAPI(t *rapid.T) { a.callMethod(t, "") }

// battery calls every method once (arguments drawn as usual): run right after a change of the wallet's
// state (import accepted, removal accepted, removal finished, restart), so that each method meets each
// state at least once per case instead of by chance.
func (a *apiCtx) battery(t *rapid.T) {
	for _, m := range c19methods {
		a.callMethod(t, m)
	}
}

func (a *apiCtx) callMethod(t *rapid.T, forced string) {
	txids, addrs, wids := a.pools(t)
	ctx := context.Background()
	passPool := []string{"", "123456", "wrongPass12", strings.Repeat("p", 41), "\x00\xff"}
	for _, m := range a.w.wallets {
		passPool = append(passPool, m.keys.Pass)
	}
	method := forced
	if method == "" {
		method = rapid.SampledFrom(c19methods).Draw(t, "method")
	}
	var desc string
	var run func() (interface{}, error)
	switch method {
	case "DecodeRawTransaction":
		h := a.genHex(t)
		desc = fmt.Sprintf("hex=%.40q(len %d)", h, len(h))
		run = func() (interface{}, error) {
			return a.srv.DecodeRawTransaction(ctx, &pb.DecodeRawTransactionRequest{Hex: h})
		}
	case "CreateRawTransaction":
		req := &pb.CreateRawTransactionRequest{Inputs: a.genInputs(t, txids), Amounts: a.genAmounts(t, addrs),
			LockTime: uint64(rapid.SampledFrom([]int{0, 1, 1 << 40}).Draw(t, "lock")), ChangeAddress: rapid.SampledFrom(addrs).Draw(t, "change")}
		if rapid.Bool().Draw(t, "subfee") {
			req.Subtractfeefrom = []string{rapid.SampledFrom(addrs).Draw(t, "sub")}
		}
		if rapid.IntRange(0, 9).Draw(t, "hugeLock") == 0 {
			req.LockTime = 1 << 63
		}
		desc = fmt.Sprintf("%+v", req)
		run = func() (interface{}, error) {
			r, err := a.srv.CreateRawTransaction(ctx, req)
			if err == nil {
				a.txHex = append(a.txHex, r.Hex)
			}
			return r, err
		}
	case "CreateStakingTransaction":
		req := &pb.CreateStakingTransactionRequest{FromAddress: rapid.SampledFrom(append(addrs, "")).Draw(t, "from"), StakingAddress: rapid.SampledFrom(addrs).Draw(t, "stakeAddr"),
			Amount: rapid.SampledFrom(amountPool).Draw(t, "amt"), FrozenPeriod: uint32(rapid.SampledFrom([]int{0, 1, 2, 3, 61440, 1 << 31}).Draw(t, "period")), Fee: rapid.SampledFrom(amountPool).Draw(t, "fee")}
		desc = fmt.Sprintf("%+v", req)
		run = func() (interface{}, error) {
			r, err := a.srv.CreateStakingTransaction(ctx, req)
			if err == nil {
				a.txHex = append(a.txHex, r.Hex)
			}
			return r, err
		}
	case "CreateBindingTransaction":
		n := rapid.IntRange(0, 2).Draw(t, "nBind")
		req := &pb.CreateBindingTransactionRequest{FromAddress: rapid.SampledFrom(append(addrs, "")).Draw(t, "from"), Fee: rapid.SampledFrom(amountPool).Draw(t, "fee")}
		for i := 0; i < n; i++ {
			req.Outputs = append(req.Outputs, &pb.CreateBindingTransactionRequest_Output{HolderAddress: rapid.SampledFrom(addrs).Draw(t, "holder"),
				BindingAddress: rapid.SampledFrom(addrs).Draw(t, "bindAddr"), Amount: rapid.SampledFrom(amountPool).Draw(t, "amt")})
		}
		desc = fmt.Sprintf("%+v", req)
		run = func() (interface{}, error) { return a.srv.CreateBindingTransaction(ctx, req) }
	case "CreatePoolPkCoinbaseTransaction":
		req := &pb.CreatePoolPkCoinbaseTransactionRequest{FromAddress: rapid.SampledFrom(append(addrs, "")).Draw(t, "from"), Payload: a.genHex(t)}
		desc = fmt.Sprintf("from=%q payload=%.30q", req.FromAddress, req.Payload)
		run = func() (interface{}, error) { return a.srv.CreatePoolPkCoinbaseTransaction(ctx, req) }
	case "AutoCreateTransaction":
		req := &pb.AutoCreateTransactionRequest{Amounts: a.genAmounts(t, addrs), LockTime: uint64(rapid.SampledFrom([]int{0, 5, 1 << 40}).Draw(t, "lock")),
			Fee: rapid.SampledFrom(amountPool).Draw(t, "fee"), FromAddress: rapid.SampledFrom(append(addrs, "", "")).Draw(t, "from"), ChangeAddress: rapid.SampledFrom(append(addrs, "", "")).Draw(t, "change")}
		desc = fmt.Sprintf("%+v", req)
		run = func() (interface{}, error) {
			r, err := a.srv.AutoCreateTransaction(ctx, req)
			if err == nil {
				a.txHex = append(a.txHex, r.Hex)
			}
			return r, err
		}
	case "GetTransactionFee":
		req := &pb.GetTransactionFeeRequest{Amounts: a.genAmounts(t, addrs), Inputs: a.genInputs(t, txids), HasBinding: rapid.Bool().Draw(t, "hasBinding")}
		desc = fmt.Sprintf("%+v", req)
		run = func() (interface{}, error) { return a.srv.GetTransactionFee(ctx, req) }
	case "TxHistory":
		req := &pb.TxHistoryRequest{Count: uint32(rapid.SampledFrom([]int{0, 1, 5, 1000, 1 << 31}).Draw(t, "count")), Address: rapid.SampledFrom(append(addrs, "")).Draw(t, "addr")}
		desc = fmt.Sprintf("%+v", req)
		run = func() (interface{}, error) { return a.srv.TxHistory(ctx, req) }
	case "GetStakingHistory":
		req := &pb.GetStakingHistoryRequest{Type: rapid.SampledFrom([]string{"", "all", "ALL", "x"}).Draw(t, "type")}
		desc = fmt.Sprintf("%+v", req)
		run = func() (interface{}, error) { return a.srv.GetStakingHistory(ctx, req) }
	case "GetBindingHistory":
		req := &pb.GetBindingHistoryRequest{Type: rapid.SampledFrom([]string{"", "all", "ALL", "x"}).Draw(t, "type")}
		desc = fmt.Sprintf("%+v", req)
		run = func() (interface{}, error) { return a.srv.GetBindingHistory(ctx, req) }
	case "SignRawTransaction":
		req := &pb.SignRawTransactionRequest{RawTx: a.genHex(t), Flags: rapid.SampledFrom([]string{"", "ALL", "NONE", "SINGLE", "ALL|ANYONECANPAY", "NONE|ANYONECANPAY", "SINGLE|ANYONECANPAY", "all", "BOGUS"}).Draw(t, "flags"),
			Passphrase: rapid.SampledFrom(passPool).Draw(t, "pass")}
		desc = fmt.Sprintf("raw=%.30q(len %d) flags=%q pass=%q", req.RawTx, len(req.RawTx), req.Flags, req.Passphrase)
		run = func() (interface{}, error) { return a.srv.SignRawTransaction(ctx, req) }
	case "CreateAddress":
		req := &pb.CreateAddressRequest{Version: int32(rapid.SampledFrom([]int{0, 1, 2, -1, 10, 65535}).Draw(t, "ver"))}
		desc = fmt.Sprintf("%+v", req)
		run = func() (interface{}, error) {
			r, err := a.srv.CreateAddress(ctx, req)
			if err == nil {
				// keep the model's view of issued addresses in step
				for _, m := range a.w.wallets {
					if m.id == a.w.env.W.CurrentWallet() {
						dec, derr := massutil.DecodeAddress(r.Address, config.ChainParams)
						if derr == nil {
							var h [32]byte
							copy(h[:], dec.ScriptAddress())
							std, _ := massutil.NewAddressWitnessScriptHash(h[:], config.ChainParams)
							m.issued = append(m.issued, issuedAddr{Index: uint32(len(m.issued)), Class: uint16(req.Version), Addr: r.Address, Std: std.EncodeAddress(), Hash: h})
							m.owns[h] = true
						}
					}
				}
			}
			return r, err
		}
	case "GetAddresses":
		req := &pb.GetAddressesRequest{Version: int32(rapid.SampledFrom([]int{0, 1, 2, -1, 65535}).Draw(t, "ver"))}
		desc = fmt.Sprintf("%+v", req)
		run = func() (interface{}, error) { return a.srv.GetAddresses(ctx, req) }
	case "ValidateAddress":
		req := &pb.ValidateAddressRequest{Address: rapid.SampledFrom(addrs).Draw(t, "addr")}
		desc = fmt.Sprintf("%+v", req)
		run = func() (interface{}, error) { return a.srv.ValidateAddress(ctx, req) }
	case "GetWalletBalance":
		req := &pb.GetWalletBalanceRequest{RequiredConfirmations: int32(rapid.SampledFrom([]int{0, 1, 6, -1, 1 << 30}).Draw(t, "confs")), Detail: rapid.Bool().Draw(t, "detail")}
		desc = fmt.Sprintf("%+v", req)
		run = func() (interface{}, error) { return a.srv.GetWalletBalance(ctx, req) }
	case "GetAddressBalance":
		n := rapid.IntRange(0, 3).Draw(t, "nAddr")
		req := &pb.GetAddressBalanceRequest{RequiredConfirmations: int32(rapid.SampledFrom([]int{0, 1, -1, 1 << 30}).Draw(t, "confs"))}
		for i := 0; i < n; i++ {
			req.Addresses = append(req.Addresses, rapid.SampledFrom(addrs).Draw(t, "addr"))
		}
		desc = fmt.Sprintf("%+v", req)
		run = func() (interface{}, error) { return a.srv.GetAddressBalance(ctx, req) }
	case "UseWallet":
		req := &pb.UseWalletRequest{WalletId: rapid.SampledFrom(wids).Draw(t, "wid")}
		desc = fmt.Sprintf("%+v", req)
		run = func() (interface{}, error) { return a.srv.UseWallet(ctx, req) }
	case "Wallets":
		run = func() (interface{}, error) { return a.srv.Wallets(ctx, nil) }
	case "GetUtxo":
		n := rapid.IntRange(0, 3).Draw(t, "nAddr")
		req := &pb.GetUtxoRequest{}
		for i := 0; i < n; i++ {
			req.Addresses = append(req.Addresses, rapid.SampledFrom(addrs).Draw(t, "addr"))
		}
		desc = fmt.Sprintf("%+v", req)
		run = func() (interface{}, error) { return a.srv.GetUtxo(ctx, req) }
	case "ImportWallet":
		ks := rapid.SampledFrom([]string{"", "{}", "{\"crypto\":{}}", "not json", "[1,2]", "{\"remarks\":1}", strings.Repeat("{", 50)}).Draw(t, "ks")
		req := &pb.ImportWalletRequest{Keystore: ks, Passphrase: rapid.SampledFrom(passPool).Draw(t, "pass")}
		desc = fmt.Sprintf("keystore=%.30q pass=%q", ks, req.Passphrase)
		run = func() (interface{}, error) { return a.srv.ImportWallet(ctx, req) }
	case "ImportMnemonic":
		mn := rapid.SampledFrom([]string{"", "abandon abandon abandon abandon abandon abandon abandon abandon abandon abandon abandon about", "abandon abandon", "zoo zoo zoo zoo zoo zoo zoo zoo zoo zoo zoo zoo", strings.Repeat("abandon ", 40), "legal winner thank year wave sausage worth useful legal winner thank yellow"}).Draw(t, "mn")
		req := &pb.ImportMnemonicRequest{Mnemonic: mn, Passphrase: rapid.SampledFrom(passPool).Draw(t, "pass"), Remarks: rapid.SampledFrom([]string{"", "r", strings.Repeat("r", 30)}).Draw(t, "rem"),
			ExternalIndex: uint32(rapid.SampledFrom([]int{0, 1, 5, 300}).Draw(t, "ext")), InternalIndex: uint32(rapid.SampledFrom([]int{0, 1, 200}).Draw(t, "int"))}
		// (index hints in the millions are legal but only slow: a 2^20-address scan takes minutes; not generated)
		desc = fmt.Sprintf("mnemonic=%.30q pass=%q ext=%d int=%d", mn, req.Passphrase, req.ExternalIndex, req.InternalIndex)
		run = func() (interface{}, error) { return a.srv.ImportMnemonic(ctx, req) }
	case "CreateWallet":
		req := &pb.CreateWalletRequest{Passphrase: rapid.SampledFrom(passPool).Draw(t, "pass"), Remarks: rapid.SampledFrom([]string{"", "r", strings.Repeat("r", 30)}).Draw(t, "rem"),
			BitSize: int32(rapid.SampledFrom([]int{0, 128, 160, 256, 64, 512, -1, 129}).Draw(t, "bits"))}
		desc = fmt.Sprintf("%+v", req)
		run = func() (interface{}, error) { return a.srv.CreateWallet(ctx, req) }
	case "ExportWallet":
		req := &pb.ExportWalletRequest{WalletId: rapid.SampledFrom(wids).Draw(t, "wid"), Passphrase: rapid.SampledFrom(passPool).Draw(t, "pass")}
		desc = fmt.Sprintf("%+v", req)
		run = func() (interface{}, error) { return a.srv.ExportWallet(ctx, req) }
	case "GetWalletMnemonic":
		req := &pb.GetWalletMnemonicRequest{WalletId: rapid.SampledFrom(wids).Draw(t, "wid"), Passphrase: rapid.SampledFrom(passPool).Draw(t, "pass")}
		desc = fmt.Sprintf("%+v", req)
		run = func() (interface{}, error) { return a.srv.GetWalletMnemonic(ctx, req) }
	case "RemoveWalletWrongPass":
		// (a successful removal changes the world model; it is exercised by C08. Here only refusals.)
		req := &pb.RemoveWalletRequest{WalletId: rapid.SampledFrom(wids).Draw(t, "wid"), Passphrase: rapid.SampledFrom([]string{"", "wrongPass12", strings.Repeat("p", 41)}).Draw(t, "pass")}
		desc = fmt.Sprintf("%+v", req)
		run = func() (interface{}, error) { return a.srv.RemoveWallet(ctx, req) }
	case "GetRawTransaction":
		req := &pb.GetRawTransactionRequest{TxId: rapid.SampledFrom(txids).Draw(t, "txid")}
		desc = fmt.Sprintf("%+v", req)
		run = func() (interface{}, error) { return a.srv.GetRawTransaction(ctx, req) }
	case "GetTxStatus":
		req := &pb.GetTxStatusRequest{TxId: rapid.SampledFrom(txids).Draw(t, "txid")}
		desc = fmt.Sprintf("%+v", req)
		run = func() (interface{}, error) { return a.srv.GetTxStatus(ctx, req) }
	case "GetClientStatus":
		desc = "-"
		run = func() (interface{}, error) { return a.srv.GetClientStatus(ctx, &empty.Empty{}) }
	case "GetBestBlock":
		desc = "-"
		run = func() (interface{}, error) { return a.srv.GetBestBlock(ctx, &empty.Empty{}) }
	case "GetBlockByHeight", "GetBlockStakingReward", "GetNetworkBinding":
		tip := a.w.node.Height()
		h := rapid.SampledFrom([]uint64{0, 1, tip / 2, tip, tip + 1, tip + 1000, 1 << 40, math.MaxUint64}).Draw(t, "height")
		desc = fmt.Sprintf("height=%d (tip %d)", h, tip)
		switch method {
		case "GetBlockByHeight":
			run = func() (interface{}, error) {
				return a.srv.GetBlockByHeight(ctx, &pb.GetBlockByHeightRequest{Height: h})
			}
		case "GetBlockStakingReward":
			run = func() (interface{}, error) {
				return a.srv.GetBlockStakingReward(ctx, &pb.GetBlockStakingRewardRequest{Height: h})
			}
		default:
			run = func() (interface{}, error) {
				return a.srv.GetNetworkBinding(ctx, &pb.GetNetworkBindingRequest{Height: h})
			}
		}
	case "CheckPoolPkCoinbase":
		keys := rapid.SliceOfN(rapid.SampledFrom([]string{"", "00", "zz", strings.Repeat("02", 33), "02" + strings.Repeat("ab", 32), strings.Repeat("f", 200)}), 0, 3).Draw(t, "poolKeys")
		desc = fmt.Sprintf("%q", keys)
		run = func() (interface{}, error) {
			return a.srv.CheckPoolPkCoinbase(ctx, &pb.CheckPoolPkCoinbaseRequest{PoolPubkeys: keys})
		}
	case "CheckTargetBinding":
		tg := rapid.SliceOfN(rapid.SampledFrom(append([]string{"", "garbage", strings.Repeat("m", 90)}, addrs...)), 0, 3).Draw(t, "targets")
		desc = fmt.Sprintf("%q", tg)
		run = func() (interface{}, error) {
			return a.srv.CheckTargetBinding(ctx, &pb.CheckTargetBindingRequest{Targets: tg})
		}
	case "SendRawTransaction":
		h := a.genHex(t)
		desc = trimTo(h, 120)
		run = func() (interface{}, error) {
			r, err := a.srv.SendRawTransaction(ctx, &pb.SendRawTransactionRequest{Hex: h})
			if sim.DrainPool() > 0 {
				a.w.flag("send-accepted-by-the-pool")
			}
			return r, err
		}
	}
	var rerr error
	o := guard.Call(60*time.Second, func() { _, rerr = run() })
	a.calls++
	switch o.Kind {
	case "done":
	case "panic":
		t.Fatalf("API %s(%s) in state %q PANICKED: %v\n%s\n  %s", method, desc, a.state, o.Panic, repoFrames(o.Stack), a.w.journalTail(10))
	case "fatal":
		t.Fatalf("API %s(%s) in state %q ended in a FATAL log exit\n%s", method, desc, a.state, repoFrames(o.Stack))
	default:
		t.Fatalf("API %s(%s) in state %q did not return within 60s\n%s", method, desc, a.state, trimStack(o.Stack))
	}
	res := "ok"
	if rerr != nil {
		res = "err"
	}
	a.w.logf("api %s %s -> %s", method, trimTo(desc, 80), res)
	c19.Case(hkey(method, desc, a.state), true, "method:"+method, "state:"+a.state, "result:"+res)
	c19.Sample("method:"+method+":"+res, 1, map[string]string{"method": method, "args": trimTo(desc, 300), "state": a.state})
}

func trimTo(s string, n int) string {
	if len(s) > n {
		return s[:n] + "..."
	}
	return s
}

func repoFrames(stack string) string {
	var out []string
	lines := strings.Split(stack, "\n")
	for i, l := range lines {
		if strings.Contains(l, "massnet.org/mass-wallet/") && i+1 < len(lines) {
			out = append(out, "    "+strings.TrimSpace(l)+"  "+strings.TrimSpace(lines[i+1]))
		}
		if len(out) >= 8 {
			break
		}
	}
	return strings.Join(out, "\n")
}

func trimStack(s string) string {
	if len(s) > 6000 {
		return s[:6000]
	}
	return s
}

func propC19(t *rapid.T) {
	useProfile(profSmall)
	nW := rapid.IntRange(1, 2).Draw(t, "wallets")
	w := newWorld(t, nW, 20, nil)
	defer w.close()
	w.c09mode = true
	w.depositsInMempool = true
	srv, err := api.NewAPIServer(&sim.Server{N: w.node}, w.env.W, func() {}, w.env.Cfg)
	if err != nil {
		t.Fatalf("HARNESS: api server: %v", err)
	}
	a := &apiCtx{w: w, srv: srv, state: "no-wallet-selected"}
	// hostile but well-formed transactions a client may ask to decode: odd output scripts
	for _, script := range [][]byte{
		{0x6a}, {0x6a, 0x02, 0xaa, 0xbb}, {0x51}, {}, {0x00, 0x20},
		append(append([]byte{0x51, 0x21}, make([]byte, 33)...), 0x51, 0xae),                                                                         // 1-of-1 multisig with an unparsable key
		append(append([]byte{0x51, 0x21, 0x02}, make([]byte, 32)...), 0x51, 0xae),                                                                   // multisig, key x=0
		append([]byte{0x00, 0x20}, make([]byte, 32)...),                                                                                             // standard
		append(append([]byte{0x00, 0x20}, make([]byte, 32)...), append([]byte{0x16}, make([]byte, 22)...)...),                                       // binding with illegal target type
		append(append([]byte{0x00, 0x20}, make([]byte, 32)...), append([]byte{0x08}, []byte{0xff, 0xff, 0xff, 0xff, 0xff, 0xff, 0xff, 0xff}...)...), // staking, period 2^64-1
	} {
		tx := wire.NewMsgTx()
		tx.AddTxIn(sim.Spend(wire.Hash{1}, 0, wire.MaxTxInSequenceNum))
		tx.AddTxOut(wire.NewTxOut(1000, script))
		if b, err := tx.Bytes(wire.Packet); err == nil {
			a.txHex = append(a.txHex, hex.EncodeToString(b))
		}
	}
	// calls before any wallet is selected
	for i := rapid.IntRange(0, 4).Draw(t, "earlyCalls"); i > 0; i-- {
		a.callAPI(t)
	}
	for i := 0; i < 6; i++ {
		w.withChainChange(t, func() { w.actMine(t, true) })
	}
	a.state = "ready"
	lateImport := false
	restarts := 0
	guarded := func(what string, f func()) {
		o := guard.Call(120*time.Second, f)
		if o.Kind == "panic" {
			if _, isStop := o.Panic.(interface{ Error() string }); isStop && strings.Contains(fmt.Sprint(o.Panic), "[rapid]") {
				panic(o.Panic)
			}
			if strings.HasPrefix(fmt.Sprintf("%T", o.Panic), "rapid.") {
				panic(o.Panic) // the library's own control flow (skip, invalid data while shrinking)
			}
			t.Fatalf("chain event %s made the wallet PANIC: %v\n%s\n  %s", what, o.Panic, repoFrames(o.Stack), w.journalTail(10))
		}
		if o.Kind == "fatal" || o.Kind == "stall" {
			t.Fatalf("chain event %s: %s\n%s", what, o.Kind, trimStack(o.Stack))
		}
	}
	t.Repeat(map[string]func(*rapid.T){
		"api":  a.callAPI,
		"api2": a.callAPI,
		"api3": a.callAPI,
		"select": func(t *rapid.T) {
			m := w.wallets[rapid.IntRange(0, len(w.wallets)-1).Draw(t, "sel")]
			if ready, rem, ex := w.walletStatus(t, m.id); ex && ready && !rem {
				if _, err := w.env.W.UseWallet(m.id); err != nil {
					t.Fatalf("UseWallet: %v", err)
				}
			}
		},
		// chain events run under a watchdog: an event that neither returns nor panics (the follower parked
		// on a lock somebody forgot to release) is the "silently stalled" of the statement
		"mine": func(t *rapid.T) {
			guarded("block", func() { w.withChainChange(t, func() { w.actMine(t, true) }) })
		},
		"reorg": func(t *rapid.T) {
			guarded("reorganisation", func() { w.withChainChange(t, func() { w.actReorg(t) }) })
		},
		"mempool": func(t *rapid.T) {
			guarded("unconfirmed transaction", func() { w.actMempool(t) })
		},
		"lateImport": func(t *rapid.T) {
			// leave a wallet in the importing state while API calls continue
			if lateImport || rapid.IntRange(0, 2).Draw(t, "doImport") > 0 {
				t.Skip("rare")
			}
			ent := rapid.SliceOfN(rapid.Byte(), 16, 16).Draw(t, "ent2")
			keys, _ := sim.EntropyFor(ent, "late9Wallet")
			if keys == nil {
				t.Skip("entropy")
			}
			for _, o := range w.wallets {
				if o.id == keys.ID {
					t.Skip("dup")
				}
			}
			a0 := keys.Addr(0)
			w.withChainChange(t, func() {
				w.mineFixed(t, []*wire.TxOut{wire.NewTxOut(700000000, sim.StdScript(a0.ScriptHash))}, nil, true)
			})
			if _, err := w.env.W.ImportWalletWithMnemonic(&keystore.WalletParams{Mnemonic: keys.Mnemonic, PrivatePassphrase: []byte(keys.Pass), Remarks: "late", AddressGapLimit: 20}); err != nil {
				t.Fatalf("late import: %v", err)
			}
			lateImport = true
			a.state = "a-wallet-importing"
			w.logf("late wallet importing")
			a.battery(t)
		},
		"restart": func(t *rapid.T) {
			// the service is stopped and started again on the same data directory: tip copy, pending
			// set, reservation cache, key cache and task queue are rebuilt from the database
			if restarts >= 2 || rapid.IntRange(0, 3).Draw(t, "doRestart") > 0 {
				t.Skip("rare")
			}
			restarts++
			guarded("restart", func() {
				if err := w.env.Restart(); err != nil {
					panic(fmt.Sprintf("restart: %v", err))
				}
				if err := w.env.StartStepped(); err != nil {
					panic(fmt.Sprintf("HARNESS: %v", err))
				}
			})
			srv, err := api.NewAPIServer(&sim.Server{N: w.node}, w.env.W, func() {}, w.env.Cfg)
			if err != nil {
				t.Fatalf("HARNESS: api server: %v", err)
			}
			a.srv = srv
			if a.state != "a-wallet-importing" {
				a.state = "no-wallet-selected"
			}
			w.logf("restart")
			a.battery(t)
		},
		"removeSelected": func(t *rapid.T) {
			// the wallet in use is removed (right passphrase, through the API); requests keep coming while
			// the removal runs and after it has finished - nothing selects another wallet for them
			if len(a.removed) > 0 || len(w.wallets) < 2 || w.taskPending(t) || rapid.IntRange(0, 2).Draw(t, "doRemove") > 0 {
				t.Skip("rare")
			}
			i := rapid.IntRange(0, len(w.wallets)-1).Draw(t, "victim")
			m := w.wallets[i]
			if ready, rem, ex := w.walletStatus(t, m.id); !ex || !ready || rem {
				t.Skip("not ready")
			}
			if _, err := w.env.W.UseWallet(m.id); err != nil {
				t.Fatalf("UseWallet: %v", err)
			}
			var rerr error
			guarded("RemoveWallet", func() {
				_, rerr = a.srv.RemoveWallet(context.Background(), &pb.RemoveWalletRequest{WalletId: m.id, Passphrase: m.keys.Pass})
			})
			if rerr != nil {
				t.Fatalf("API RemoveWallet(selected wallet, right passphrase): %v", rerr)
			}
			w.wallets = append(w.wallets[:i:i], w.wallets[i+1:]...)
			// (from now on the victim's coins are nobody's for the block generator, as in C08)
			a.removed = append(a.removed, m)
			a.state = "selected-wallet-being-removed"
			w.logf("remove selected wallet %s", m.id[:10])
			a.battery(t)
		},
		"serve": func(t *rapid.T) {
			if !w.taskPending(t) {
				t.Skip("no task")
			}
			guarded("worker section", func() {
				if _, err := w.env.ServeWorker(20 * time.Second); err != nil {
					panic(err)
				}
			})
			if !w.taskPending(t) {
				if a.state == "selected-wallet-being-removed" {
					a.state = "selected-wallet-removed"
					a.battery(t)
				} else {
					a.state = "ready"
				}
			}
		},
		"": func(t *rapid.T) {},
	})
	_ = hex.EncodeToString
	c19.Label("api-calls", a.calls)
}

func TestC19(t *testing.T) {
	t.Run("api", rapid.MakeCheck(propC19))
}
