package checks

import (
	"crypto/sha256"
	"encoding/hex"
	"encoding/json"
	"fmt"
	"os"
	"runtime/debug"
	"testing"

	"github.com/massnetorg/mass-core/logging"
	"pgregory.net/rapid"
	"verifharness/ev"
	"verifharness/guard"
	"verifharness/ref"
)

func TestMain(m *testing.M) {
	logDir := os.Getenv("VERIF_SCRATCH")
	if logDir == "" {
		logDir, _ = os.MkdirTemp("", "verif-log")
		defer os.RemoveAll(logDir)
	}
	lvl := os.Getenv("VERIF_LOGLEVEL")
	if lvl == "" {
		lvl = "fatal"
	}
	logging.Init(logDir, "wallet.log", lvl, 1, os.Getenv("VERIF_LOGLEVEL") == "")
	guard.Install()
	// every wallet database open allocates a 128 MiB write buffer that is garbage a moment later;
	// while a failure shrinks, instances are opened faster than the default pacing collects them and
	// the address-space limit of the shard would be hit (process death = inconclusive instead of the
	// violation). A soft limit makes the collector keep up.
	debug.SetMemoryLimit(2 << 30)
	if err := ref.SelfTest(); err != nil {
		fmt.Println("HARNESS-ERROR: reference self-test failed:", err)
		os.Exit(3)
	}
	code := m.Run()
	ev.FlushAll()
	os.Exit(code)
}

// hkey builds a structural key for distinctness counting.
func hkey(parts ...interface{}) string {
	h := sha256.New()
	for _, p := range parts {
		switch v := p.(type) {
		case []byte:
			h.Write(v)
		case string:
			h.Write([]byte(v))
		default:
			fmt.Fprintf(h, "%v", v)
		}
		h.Write([]byte{0})
	}
	return hex.EncodeToString(h.Sum(nil)[:12])
}

type knownEntry struct {
	Property string `json:"property"`
	Key      string `json:"key"`
	Status   string `json:"status"`
	Commit   string `json:"commit,omitempty"`
	What     string `json:"what"`
}

var knownCache []knownEntry

func knownFindings() []knownEntry {
	if knownCache != nil {
		return knownCache
	}
	path := os.Getenv("VERIF_KNOWN")
	if path == "" {
		path = "/verif/known_findings.json"
	}
	b, err := os.ReadFile(path)
	knownCache = []knownEntry{}
	if err != nil {
		return knownCache
	}
	var doc struct {
		Findings []knownEntry `json:"findings"`
	}
	if json.Unmarshal(b, &doc) == nil {
		knownCache = doc.Findings
	}
	return knownCache
}

// isKnown reports whether (property,key) is listed with status "known".
func isKnown(prop, key string) (string, bool) {
	for _, e := range knownFindings() {
		if e.Property == prop && e.Key == key && e.Status == "known" {
			return e.What, true
		}
	}
	return "", false
}

// pick draws one element of a string slice.
func pick(t *rapid.T, label string, xs []string) string {
	return xs[rapid.IntRange(0, len(xs)-1).Draw(t, label)]
}
