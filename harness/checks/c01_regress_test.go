//go:build verif

package checks

import (
	"testing"

	"github.com/massnetorg/mass-core/wire"
	"pgregory.net/rapid"
	"verifharness/sim"
)

// Deterministic reproducers of shrunk C01 failures (bypass the generator, run on every check).

// regressBatchCreditLookup: two blocks applied inside one wallet-db transaction (second one
// announced only): block A pays the wallet, block B spends that coin. The spend must be recorded.
func regressBatchCreditLookup(t *rapid.T) {
	useProfile(profSmall)
	w := newWorld(t, 1, 20, nil)
	defer w.close()
	m := w.wallets[0]
	h := m.issued[0].Hash
	// block 1 (announced, processed): nothing relevant
	w.mineFixed(t, nil, nil, true)
	w.deliverAll(t)
	// block 2 (silent): tx funding is a coinbase to a stranger in block 1? use coinbase->wallet directly
	b2 := w.mineFixed(t, []*wire.TxOut{wire.NewTxOut(500000000, sim.StdScript(h))}, nil, false)
	cb := b2.MsgBlock().Transactions[0].TxHash()
	// blocks 3..6 silent so the coinbase matures (maturity 4), then a spend in block 7 (announced)
	for i := 0; i < 4; i++ {
		w.mineFixed(t, nil, nil, false)
	}
	spend := wire.NewMsgTx()
	spend.AddTxIn(sim.Spend(cb, 0, wire.MaxTxInSequenceNum))
	spend.AddTxOut(wire.NewTxOut(499999000, sim.StdScript(w.strangers[0])))
	w.mineFixed(t, nil, []*wire.MsgTx{spend}, true)
	w.deliverAll(t)
	w.auditLedger(t)
}

// regressRollbackDoubleSpend: a wallet coin is spent by X in block B; a reorg replaces B by B'
// containing X' which double-spends the same coin. The rolled-back X goes to the pending set and
// must be readable there when X' confirms.
func regressRollbackDoubleSpend(t *rapid.T) {
	useProfile(profSmall)
	w := newWorld(t, 1, 20, nil)
	defer w.close()
	h := w.wallets[0].issued[0].Hash
	// a stranger-funded payment to the wallet needs a mature coin: use coinbase -> wallet and wait
	b1 := w.mineFixed(t, []*wire.TxOut{wire.NewTxOut(500000000, sim.StdScript(h))}, nil, true)
	cb := b1.MsgBlock().Transactions[0].TxHash()
	for i := 0; i < 4; i++ {
		w.mineFixed(t, nil, nil, true)
	}
	w.deliverAll(t)
	x := wire.NewMsgTx()
	x.AddTxIn(sim.Spend(cb, 0, wire.MaxTxInSequenceNum))
	x.AddTxOut(wire.NewTxOut(499990000, sim.StdScript(w.strangers[0])))
	w.mineFixed(t, nil, []*wire.MsgTx{x}, true)
	w.deliverAll(t)
	w.auditLedger(t)
	// reorg: replace the last block by one with a conflicting spend, plus one more block
	if err := w.node.DetachTip(); err != nil {
		t.Fatalf("HARNESS: %v", err)
	}
	x2 := wire.NewMsgTx()
	x2.AddTxIn(sim.Spend(cb, 0, wire.MaxTxInSequenceNum))
	x2.AddTxOut(wire.NewTxOut(499980000, sim.StdScript(w.strangers[1])))
	w.mineFixed(t, nil, []*wire.MsgTx{x2}, false)
	w.mineFixed(t, nil, nil, true)
	w.deliverAll(t)
	w.auditLedger(t)
}

// mineFixed attaches a block with exactly the given coinbase outputs and transactions.
func (w *World) mineFixed(t *rapid.T, cbOuts []*wire.TxOut, txs []*wire.MsgTx, announce bool) *blockT {
	blk := w.node.NewBlock(w.node.Tip(), cbOuts, txs)
	if err := w.node.Attach(blk); err != nil {
		t.Fatalf("HARNESS: attach: %v", err)
	}
	if announce {
		w.announce(blk.MsgBlock())
		w.tipAnnounced = true
	} else {
		w.tipAnnounced = false
	}
	w.logf("mineFixed h=%d txs=%d announce=%v", blk.Height(), len(txs), announce)
	return blk
}

func TestC01Regress(t *testing.T) {
	t.Run("batch-credit-lookup", func(t *testing.T) {
		rapid.Check(t, regressBatchCreditLookup)
	})
	t.Run("rollback-double-spend", func(t *testing.T) {
		rapid.Check(t, regressRollbackDoubleSpend)
	})
}
