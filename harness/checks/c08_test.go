//go:build verif

package checks

import (
	"bytes"
	"encoding/binary"
	"encoding/hex"
	"fmt"
	"os"
	"sort"
	"strings"
	"testing"

	"github.com/massnetorg/mass-core/massutil"
	"github.com/massnetorg/mass-core/wire"
	"github.com/syndtr/goleveldb/leveldb"
	"github.com/syndtr/goleveldb/leveldb/opt"
	"massnet.org/mass-wallet/config"
	"massnet.org/mass-wallet/masswallet"
	"massnet.org/mass-wallet/masswallet/keystore"
	"pgregory.net/rapid"
	"verifharness/ev"
	"verifharness/sim"
)

// ---- C08: removing a wallet erases it completely and leaves every other wallet intact ---------

var c08 = ev.Open("C08", "exploration",
	"rapid state machine: 2..3 wallets with shared transactions, pending transactions, staking/binding records on a generated chain; "+
		"a removal request at a drawn moment (wrong passphrase first; refused while the wallet is importing), its background steps "+
		"interleaved with blocks, reorganisations and pending transactions, and a restart of the instance between removal steps. "+
		"Oracle: afterwards the wallet is not listed; a raw scan of the closed database finds its id, its address strings and its 32-byte "+
		"script hashes in no key and in no value (except inside pending transactions a surviving wallet still needs); every survivor's "+
		"ledger and deposit histories equal the chain model and it can still build and sign a transaction; importing the same mnemonic "+
		"again succeeds and converges to the model. Non-trivial = removal completed with a chain change or a restart between its steps, "+
		"or with a transaction shared with a survivor (distinct by journal hash).")

// scanResidue looks for any trace of a removed wallet in the closed database.
func scanResidue(t *rapid.T, dir string, removed *mwallet, survivors []*mwallet, needs func(*wire.MsgTx) bool, journal string) int {
	db, err := leveldb.OpenFile(dir, &opt.Options{ErrorIfMissing: true, ReadOnly: true})
	if err != nil {
		t.Fatalf("HARNESS: open closed db: %v", err)
	}
	defer db.Close()
	pats := map[string][]byte{"wallet id": []byte(removed.id)}
	for _, ia := range removed.issued {
		shared := false
		for _, s := range survivors {
			if s.owns[ia.Hash] {
				shared = true
			}
		}
		if shared {
			continue
		}
		h := ia.Hash
		pats[fmt.Sprintf("script hash of address #%d", ia.Index)] = h[:]
		pats[fmt.Sprintf("address #%d", ia.Index)] = []byte(ia.Std)
		stk, _ := massutil.NewAddressStakingScriptHash(h[:], config.ChainParams)
		pats[fmt.Sprintf("staking address #%d", ia.Index)] = []byte(stk.EncodeAddress())
	}
	n := 0
	it := db.NewIterator(nil, nil)
	defer it.Release()
	for it.Next() {
		n++
		k, v := it.Key(), it.Value()
		for name, p := range pats {
			if bytes.Contains(k, p) {
				t.Fatalf("after the removal of wallet %s a database key still contains its %s: key %q\n  %s", removed.id[:10], name, k, journal)
			}
			if bytes.Contains(v, p) {
				// pending transactions (bucket t/m: keys 2_t_m_<hash>) that a survivor still needs may mention it
				if bytes.HasPrefix(k, []byte("2_t_m_")) && len(v) > 8 {
					var tx wire.MsgTx
					if tx.SetBytes(v[8:], wire.DB) == nil {
						needed := false
						for _, o := range tx.TxOut {
							_, hh, _, _ := classify(o.PkScript)
							for _, s := range survivors {
								if s.owns[hh] {
									needed = true
								}
							}
						}
						if needed || needs(&tx) {
							continue
						}
					}
				}
				t.Fatalf("after the removal of wallet %s a database value still contains its %s: key %q value %s\n  %s", removed.id[:10], name, k, hex.EncodeToString(trunc(v, 80)), journal)
			}
		}
	}
	return n
}

func propC08(t *rapid.T) {
	useProfile(profSmall)
	nW := rapid.IntRange(2, 3).Draw(t, "wallets")
	w := newWorld(t, nW, 20, nil)
	defer w.close()
	w.c09mode = true
	w.depositsInMempool = true
	for i := 0; i < 6; i++ {
		w.withChainChange(t, func() { w.actMine(t, true) })
	}
	var victim *mwallet
	removalRequested, removalDone := false, false
	changesDuring, restartsDuring := 0, 0
	sweepHeight, sweepReorged := uint64(0), false
	removing := func() bool {
		if victim == nil || removalDone {
			return false
		}
		_, rem, exists := w.walletStatus(t, victim.id)
		return exists && rem
	}
	finishCheck := func() {
		if victim == nil || removalDone {
			return
		}
		if _, _, exists := w.walletStatus(t, victim.id); !exists {
			removalDone = true
			w.logf("removal of %s complete", victim.id[:10])
			// the model forgets the wallet: its coins belong to nobody now
			var rest []*mwallet
			for _, m := range w.wallets {
				if m != victim {
					rest = append(rest, m)
				}
			}
			w.wallets = rest
			for h, tx := range w.pending {
				if !w.txRelevant(tx, false) {
					delete(w.pending, h)
				}
			}
			if _, err := w.env.W.UseWallet(victim.id); err == nil {
				t.Fatalf("removed wallet can still be selected")
			}
		}
	}
	t.Repeat(map[string]func(*rapid.T){
		"newAddress": func(t *rapid.T) {
			m := w.wallets[rapid.IntRange(0, len(w.wallets)-1).Draw(t, "wallet")]
			if len(m.issued) >= 4 || (victim == m && removalRequested) {
				t.Skip("enough addresses")
			}
			class := uint16(massutil.AddressClassWitnessV0)
			if rapid.IntRange(0, 3).Draw(t, "stk") == 0 {
				class = massutil.AddressClassWitnessStaking
			}
			if _, err := w.issueAddress(t, m, class); err != nil {
				t.Fatalf("NewAddress: %v", err)
			}
		},
		"mempool": func(t *rapid.T) {
			if removing() {
				t.Skip("keep the pending model simple while a removal is in flight")
			}
			w.actMempool(t)
		},
		"mine": func(t *rapid.T) {
			if removing() {
				changesDuring++
			}
			w.withChainChange(t, func() { w.actMine(t, true) })
		},
		"mine2": func(t *rapid.T) {
			if removing() {
				changesDuring++
			}
			w.withChainChange(t, func() { w.actMine(t, true) })
		},
		"reorg": func(t *rapid.T) {
			if removing() {
				changesDuring++
			}
			w.withChainChange(t, func() { w.actReorg(t) })
			if os.Getenv("VERIF_DEBUG") != "" {
				w.auditPending(t)
			}
		},
		"jointSweep": func(t *rapid.T) {
			// a transaction that spends coins of two wallets into ONE output (more inputs than outputs)
			if removalRequested {
				t.Skip("before the removal only")
			}
			view := w.chainView(t)
			next := w.node.Height() + 1
			pick := func(m *mwallet) *Coin {
				for _, c := range walletCoins(view, m.owns) {
					if c.Class == clsStd && c.Value > 0 && spendableAt(c, next) && w.coinAllowed(c) && len(w.pendingSpenders(c.Op)) == 0 {
						return c
					}
				}
				return nil
			}
			i := rapid.IntRange(0, len(w.wallets)-1).Draw(t, "sweepFirst")
			A, B := w.wallets[i], w.wallets[(i+1)%len(w.wallets)]
			ca, cb := pick(A), pick(B)
			if ca == nil || cb == nil {
				t.Skip("no spendable coins in both wallets")
			}
			tx := wire.NewMsgTx()
			ins := []*Coin{ca, cb}
			if rapid.Bool().Draw(t, "sweepOrder") {
				ins = []*Coin{cb, ca}
			}
			var sum int64
			for _, c := range ins {
				tx.AddTxIn(sim.Spend(c.Op.Hash, c.Op.Index, requiredSequence(c)))
				sum += c.Value
			}
			dest := sim.StdScript(w.strangers[0])
			if rapid.IntRange(0, 3).Draw(t, "sweepToWallet") > 0 {
				dest = sim.StdScript(A.issued[0].Hash)
			}
			tx.AddTxOut(wire.NewTxOut(sum-1000, dest))
			w.withChainChange(t, func() {
				w.mineFixed(t, []*wire.TxOut{wire.NewTxOut(100000000, sim.StdScript(w.strangers[1]))}, []*wire.MsgTx{tx}, true)
			})
			w.flag("joint-sweep")
			sweepHeight = w.node.Height()
		},
		"reorgOverSweep": func(t *rapid.T) {
			// after the removal: the block with the joint transaction is reorganised away
			if !removalDone || sweepHeight == 0 || sweepReorged || w.node.Height() < sweepHeight || w.node.Height()-sweepHeight >= 10 {
				t.Skip("no joint transaction to roll back")
			}
			sweepReorged = true
			w.forcedReorgDepth = int(w.node.Height() - sweepHeight + 1)
			w.withChainChange(t, func() { w.actReorg(t) })
			w.flag("joint-sweep-rolled-back-after-removal")
		},
		"remove": func(t *rapid.T) {
			if removalRequested {
				t.Skip("one removal per case")
			}
			victim = w.wallets[rapid.IntRange(0, len(w.wallets)-1).Draw(t, "victim")]
			for _, bad := range []string{victim.keys.Pass + "x", "", "wrongPass12"} {
				if err := w.env.W.RemoveWallet(victim.id, bad); err == nil {
					t.Fatalf("RemoveWallet accepted wrong passphrase %q", bad)
				}
			}
			if ready, _, _ := w.walletStatus(t, victim.id); !ready {
				t.Fatalf("HARNESS: victim not ready")
			}
			// now and then the victim has a few unconfirmed payments of its own at removal time
			if rapid.IntRange(0, 2).Draw(t, "victimPendingPayments") == 0 {
				view := w.chainView(t)
				next := w.node.Height() + 1
				n := 0
				for _, c := range view.live() {
					if n >= 2 {
						break
					}
					if w.ownedByAny(c) || c.Class != clsStd || c.Value < 100000 || !spendableAt(c, next) || !w.coinAllowed(c) || len(w.pendingSpenders(c.Op)) > 0 {
						continue
					}
					tx := wire.NewMsgTx()
					tx.AddTxIn(sim.Spend(c.Op.Hash, c.Op.Index, requiredSequence(c)))
					tx.AddTxOut(wire.NewTxOut(c.Value-1000, sim.StdScript(victim.issued[0].Hash)))
					tx.Payload = []byte{0xc8, byte(n)}
					if err := w.env.H.VerifProcessTx(tx); err != nil {
						t.Fatalf("unconfirmed payment to the wallet refused: %v", err)
					}
					h := tx.TxHash()
					w.pending[h], w.everSeen[h] = tx, tx
					w.logf("mempool pay-victim %s", h.String()[:10])
					n++
				}
				if n == 2 {
					w.flag("victim-has-two-pending-payments")
				}
			}
			if err := w.env.W.RemoveWallet(victim.id, victim.keys.Pass); err != nil {
				t.Fatalf("RemoveWallet with the right passphrase: %v", err)
			}
			removalRequested = true
			w.logf("remove wallet %s requested", victim.id[:10])
			// from this moment the wallet ignores the victim (its status carries the removal flag), so
			// for the model its coins are nobody's: conflicts through them are invisible to the wallet
			// and must not be generated (see coinAllowed)
			var rest []*mwallet
			for _, m := range w.wallets {
				if m != victim {
					rest = append(rest, m)
				}
			}
			w.wallets = rest
			for _, tx := range w.pending {
				_ = tx
			}
			shared := false
			for _, b := range w.node.Chain {
				for _, tx := range b.MsgBlock().Transactions {
					v, o := false, false
					for _, out := range tx.TxOut {
						_, hh, _, _ := classify(out.PkScript)
						if victim.owns[hh] {
							v = true
						}
						for _, m := range w.wallets {
							if m != victim && m.owns[hh] {
								o = true
							}
						}
					}
					if v && o {
						shared = true
					}
				}
			}
			if shared {
				w.flag("victim-shares-tx-with-survivor")
			}
		},
		"serveRemoval": func(t *rapid.T) {
			if !removing() {
				t.Skip("no removal in flight")
			}
			ok, err := w.env.ServeWorker(20e9)
			if err != nil || !ok {
				t.Fatalf("removal pending but the worker did not run a step (ok=%v err=%v)", ok, err)
			}
			w.logf("removal step served")
			finishCheck()
		},
		"restart": func(t *rapid.T) {
			if !removing() || rapid.IntRange(0, 1).Draw(t, "doRestart") == 1 {
				t.Skip("restart only between removal steps")
			}
			if err := w.env.Restart(); err != nil {
				t.Fatalf("restart: %v", err)
			}
			if err := w.env.StartStepped(); err != nil {
				t.Fatalf("HARNESS: %v", err)
			}
			restartsDuring++
			w.flag("restart-during-removal")
			w.logf("restart during removal")
			finishCheck()
		},
		"importingRefused": func(t *rapid.T) {
			// a wallet that is still importing cannot be removed
			if removalRequested || len(w.wallets) >= 4 || rapid.IntRange(0, 3).Draw(t, "rareImport") > 0 {
				t.Skip("rare")
			}
			m := w.wallets[0]
			_ = m
			// build a fresh wallet whose first address already has history, import it, try to remove before serving the import
			ent := rapid.SliceOfN(rapid.Byte(), 16, 16).Draw(t, "ent2")
			keys, _ := simEntropy(ent, "late9Wallet")
			if keys == nil {
				t.Skip("entropy")
			}
			for _, o := range w.wallets {
				if o.id == keys.ID {
					t.Skip("dup")
				}
			}
			a0 := keys.Addr(0)
			w.withChainChange(t, func() {
				w.mineFixed(t, []*wire.TxOut{wire.NewTxOut(700000000, stdScriptOf(a0.ScriptHash))}, nil, true)
			})
			ws, err := w.env.W.ImportWalletWithMnemonic(&keystore.WalletParams{Mnemonic: keys.Mnemonic, PrivatePassphrase: []byte(keys.Pass), Remarks: "late", AddressGapLimit: 20})
			if err != nil {
				t.Fatalf("late import: %v", err)
			}
			if err := w.env.W.RemoveWallet(ws.WalletID, keys.Pass); err != masswallet.ErrWalletUnready {
				t.Fatalf("RemoveWallet on an importing wallet returned %v, want the unready error", err)
			}
			w.flag("removal-refused-while-importing")
			nm := &mwallet{keys: keys, id: ws.WalletID, owns: map[[32]byte]bool{}}
			w.wallets = append(w.wallets, nm)
			w.finishTasks(t)
			w.syncIssued(t, nm)
			w.logf("late wallet %s imported", nm.id[:10])
		},
		"": func(t *rapid.T) {
			finishCheck()
			w.auditLedger(t)
			w.auditHistoriesOpt(t, true)
		},
	})
	if !removalRequested {
		c08.Case(hkey(strings.Join(w.journal, "\n")), false, "no-removal")
		return
	}
	w.finishTasks(t)
	finishCheck()
	if !removalDone {
		t.Fatalf("removal did not complete\n  %s", w.journalTail(20))
	}
	w.auditLedger(t)
	w.auditHistoriesOpt(t, true)
	// no survivor coin may be held by a pending transaction the wallet does not have (after a removal
	// with chain changes in flight the model cannot know every pending transaction the wallet has seen,
	// so the pending set itself is not compared here - C09 does that - only its internal consistency
	// as far as survivors' coins go)
	{
		store := w.readBucket(t, "t", "m")
		spentInStore := map[wire.OutPoint]bool{}
		for _, v := range store {
			if len(v) < 8 {
				continue
			}
			var ptx wire.MsgTx
			if err := ptx.SetBytes(v[8:], wire.DB); err != nil {
				t.Fatalf("pending store entry does not decode: %v", err)
			}
			for _, in := range ptx.TxIn {
				spentInStore[in.PreviousOutPoint] = true
			}
		}
		// ... and nothing may be left that points at a pending transaction which is gone: a record in the
		// pending-input index (outpoint -> pending spenders) or in the pending-credit index whose
		// transaction is not in the pending store any more is residue of the removal (it is keyed by a
		// coin of the removed wallet, not by its id or addresses, so the id scan cannot see it)
		inStore := map[wire.Hash]bool{}
		for k := range store {
			if len(k) >= 32 {
				var h wire.Hash
				copy(h[:], k[:32])
				inStore[h] = true
			}
		}
		for k, v := range w.readBucket(t, "u", "mi") {
			if len(k) < 36 || victim == nil {
				continue
			}
			// whose coin is this outpoint? (the index also holds the foreign inputs of pending transactions;
			// entries for those that outlive a transaction only the removed wallet knew are garbage, but they
			// are keyed by nobody's coin and the statement does not speak about them)
			var op wire.OutPoint
			copy(op.Hash[:], k[:32])
			op.Index = binary.BigEndian.Uint32([]byte(k[32:36]))
			ptx := w.node.KnownTx(op.Hash)
			if ptx == nil {
				ptx = w.everSeen[op.Hash]
			}
			if ptx == nil || int(op.Index) >= len(ptx.TxOut) {
				continue
			}
			if _, hh, _, _ := classify(ptx.TxOut[op.Index].PkScript); !victim.owns[hh] {
				continue
			}
			for off := 0; off+32 <= len(v); off += 32 {
				var h wire.Hash
				copy(h[:], v[off:off+32])
				if !inStore[h] {
					t.Fatalf("after the removal the pending-input index still holds a record keyed by a coin of the removed wallet: %v is 'spent by' %s, a transaction that is not in the pending store any more\n  %s", op, h.String()[:10], w.journalTail(40))
				}
			}
		}
		for k := range w.readBucket(t, "u", "mc") {
			if len(k) < 32 {
				continue
			}
			var h wire.Hash
			copy(h[:], k[:32])
			if !inStore[h] {
				t.Fatalf("after the removal the pending-credit index still holds an output of %s, a transaction that is not in the pending store any more\n  %s", h.String()[:10], w.journalTail(40))
			}
		}
		for _, m := range w.wallets {
			if _, err := w.env.W.UseWallet(m.id); err != nil {
				t.Fatalf("UseWallet(survivor): %v", err)
			}
			utx, err := w.env.W.GetUtxo(nil)
			if err != nil {
				t.Fatalf("GetUtxo: %v", err)
			}
			for _, list := range utx {
				for _, u := range list {
					var op wire.OutPoint
					hh, _ := wire.NewHashFromStr(u.TxId)
					op.Hash, op.Index = *hh, u.Vout
					if u.SpentByUnmined && !spentInStore[op] {
						t.Fatalf("survivor %s: coin %s:%d (%d) is reported as spent by a pending transaction, but no transaction in the pending store spends it: the removal left a reservation behind\n  %s", m.id[:10], u.TxId[:10], u.Vout, amt(u.Amount), w.journalTail(40))
					}
					if !u.SpentByUnmined && spentInStore[op] {
						t.Fatalf("survivor %s: coin %s:%d (%d) is spent by a transaction of the pending store but is not reported as spent by a pending transaction any more: the removal dropped a survivor's reservation\n  %s", m.id[:10], u.TxId[:10], u.Vout, amt(u.Amount), w.journalTail(40))
					}
				}
			}
		}
	}
	// survivors can still build and sign
	view := w.chainView(t)
	for _, m := range w.wallets {
		if _, err := w.env.W.UseWallet(m.id); err != nil {
			t.Fatalf("UseWallet(survivor): %v", err)
		}
		dest, _ := massutil.NewAddressWitnessScriptHash(w.strangers[0][:], config.ChainParams)
		hexTx, _, err := w.env.W.AutoCreateRawTransaction(map[string]massutil.Amount{dest.EncodeAddress(): amountOf(20000)}, 0, massutil.ZeroAmount(), "", "", nil)
		if err != nil {
			bal := balanceOf(walletCoins(view, m.owns), w.node.Height(), 0)
			reserved := false
			if utx, uerr := w.env.W.GetUtxo(nil); uerr == nil {
				for _, list := range utx {
					for _, u := range list {
						reserved = reserved || u.SpentByUnmined
					}
				}
			}
			if bal.Spendable > 5000000 && !reserved {
				var flagged []string
				if utx, uerr := w.env.W.GetUtxo(nil); uerr == nil {
					for _, list := range utx {
						for _, u := range list {
							if u.SpentByUnmined {
								flagged = append(flagged, fmt.Sprintf("%s:%d (%d)", u.TxId[:10], u.Vout, amt(u.Amount)))
							}
						}
					}
				}
				t.Fatalf("survivor %s cannot build a transaction after the removal: %v (the best chain gives it %d spendable, no transaction is pending; coins the wallet reports as spent by a pending transaction: %v)\n  %s", m.id[:10], err, bal.Spendable, flagged, w.journalTail(40))
			}
			continue
		}
		raw, _ := hex.DecodeString(hexTx)
		var mtx wire.MsgTx
		mtx.SetBytes(raw, wire.Packet)
		if _, err := w.env.W.SignRawTx([]byte(m.keys.Pass), "ALL", &mtx); err != nil {
			t.Fatalf("survivor %s cannot sign after the removal: %v", m.id[:10], err)
		}
		w.flag("survivor-builds-and-signs")
	}
	// raw residue scan of the closed database, then re-import - or, in half of the cases, re-import into
	// the instance as it runs (no restart in between: what the removal left in memory is still there)
	scanNow := rapid.Bool().Draw(t, "scanBeforeReimport")
	if scanNow {
		if err := w.env.StopWallet(); err != nil {
			t.Fatalf("stop: %v", err)
		}
		entries := scanResidue(t, w.env.DBPath, victim, w.wallets, func(tx *wire.MsgTx) bool { return w.txRelevant(tx, false) }, w.journalTail(30))
		c08.Label("raw-entries-scanned", entries)
		if err := w.env.Open(false); err != nil {
			t.Fatalf("reopen: %v", err)
		}
		if err := w.env.StartStepped(); err != nil {
			t.Fatalf("HARNESS: %v", err)
		}
	} else {
		w.flag("reimport-without-restart")
	}
	hint := uint32(len(victim.issued))
	if _, err := w.env.W.ImportWalletWithMnemonic(&keystore.WalletParams{Mnemonic: victim.keys.Mnemonic, PrivatePassphrase: []byte(victim.keys.Pass), Remarks: "again", ExternalIndex: hint, AddressGapLimit: 20}); err != nil {
		t.Fatalf("importing the removed wallet's mnemonic again failed: %v", err)
	}
	w.finishTasks(t)
	again := &mwallet{keys: victim.keys, id: victim.id, owns: map[[32]byte]bool{}}
	w.wallets = append(w.wallets, again)
	w.syncIssued(t, again)
	w.auditLedger(t)
	w.auditHistoriesOpt(t, true)
	// the wallet that came back: a coin of it is reported as spent by a pending transaction exactly when
	// the pending store holds a transaction spending it (a reservation by a transaction the removal
	// deleted would lock the coin for good; a pending spend the store still has must keep it reserved)
	{
		spentInStore := map[wire.OutPoint]wire.Hash{}
		for k, v := range w.readBucket(t, "t", "m") {
			if len(v) < 8 || len(k) < 32 {
				continue
			}
			var ptx wire.MsgTx
			if err := ptx.SetBytes(v[8:], wire.DB); err != nil {
				t.Fatalf("pending store entry does not decode: %v", err)
			}
			var h wire.Hash
			copy(h[:], k[:32])
			for _, in := range ptx.TxIn {
				spentInStore[in.PreviousOutPoint] = h
			}
		}
		if _, err := w.env.W.UseWallet(again.id); err != nil {
			t.Fatalf("UseWallet(re-imported): %v", err)
		}
		utx, err := w.env.W.GetUtxo(nil)
		if err != nil {
			t.Fatalf("GetUtxo: %v", err)
		}
		for _, list := range utx {
			for _, u := range list {
				var op wire.OutPoint
				hh, _ := wire.NewHashFromStr(u.TxId)
				op.Hash, op.Index = *hh, u.Vout
				sp, held := spentInStore[op]
				if u.SpentByUnmined && !held {
					t.Fatalf("re-imported wallet: coin %s:%d (%d) is reported as spent by a pending transaction, but no transaction in the pending store spends it: the removal left a reservation behind\n  %s", u.TxId[:10], u.Vout, amt(u.Amount), w.journalTail(40))
				}
				if !u.SpentByUnmined && held {
					t.Fatalf("re-imported wallet: coin %s:%d (%d) is spent by pending transaction %s, which the wallet has in its pending store, but is not reported as spent by a pending transaction\n  %s", u.TxId[:10], u.Vout, amt(u.Amount), sp.String()[:10], w.journalTail(40))
				}
				if held {
					w.flag("reimported-coin-held-by-a-kept-pending-tx")
				}
			}
		}
	}
	// unconfirmed transactions of the wallet that are announced again after the re-import must be taken
	// (the removal forgot them; nothing may make the wallet ignore them now)
	{
		view := w.chainView(t)
		mined := map[wire.Hash]bool{}
		for _, b := range w.node.Chain {
			for _, tx := range b.MsgBlock().Transactions {
				mined[tx.TxHash()] = true
			}
		}
		spentInStore := map[wire.OutPoint]bool{}
		for _, v := range w.readBucket(t, "t", "m") {
			var ptx wire.MsgTx
			if len(v) >= 8 && ptx.SetBytes(v[8:], wire.DB) == nil {
				for _, in := range ptx.TxIn {
					spentInStore[in.PreviousOutPoint] = true
				}
			}
		}
		var hashes []wire.Hash
		for h := range w.everSeen {
			hashes = append(hashes, h)
		}
		sort.Slice(hashes, func(i, j int) bool { return bytes.Compare(hashes[i][:], hashes[j][:]) < 0 })
		redelivered := 0
		for _, h := range hashes {
			tx := w.everSeen[h]
			if mined[h] || redelivered >= 3 {
				continue
			}
			if _, err := w.env.W.VerifUnminedTx(&h); err == nil {
				continue // the wallet still has it (a survivor needs it)
			}
			pays := false
			for _, o := range tx.TxOut {
				_, hh, _, _ := classify(o.PkScript)
				pays = pays || again.owns[hh]
			}
			ok := pays
			for _, in := range tx.TxIn {
				c := view.coins[in.PreviousOutPoint]
				ok = ok && c != nil && !spentInStore[in.PreviousOutPoint] && spendableAt(c, w.node.Height()+1)
			}
			if !ok {
				continue
			}
			if err := w.env.H.VerifProcessTx(tx); err != nil {
				t.Fatalf("unconfirmed transaction %s, valid on the current chain and paying the re-imported wallet, was refused when announced again: %v\n  %s", h.String()[:10], err, w.journalTail(30))
			}
			if _, err := w.env.W.VerifUnminedTx(&h); err != nil {
				t.Fatalf("unconfirmed transaction %s pays the re-imported wallet and was announced again after the re-import, but the wallet did not take it (%v): something of the removed wallet's pending transactions survived the removal\n  %s", h.String()[:10], err, w.journalTail(30))
			}
			for _, in := range tx.TxIn {
				spentInStore[in.PreviousOutPoint] = true
			}
			redelivered++
			w.flag("pending-tx-announced-again-after-reimport")
		}
	}
	flags := w.sortedFlags()
	nt := changesDuring > 0 || restartsDuring > 0 || w.flags["victim-shares-tx-with-survivor"]
	c08.Case(hkey(strings.Join(w.journal, "\n")), nt, flags...)
	if nt {
		c08.Sample(strings.Join(flags, "+"), 1, w.journal)
	}
}

func TestC08(t *testing.T) {
	t.Run("removal", rapid.MakeCheck(propC08))
}

func simEntropy(e []byte, pass string) (*simKeys, int) { return simEntropyFor(e, pass) }
