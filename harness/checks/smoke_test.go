//go:build verif

package checks

import (
	"testing"
	"time"

	"github.com/massnetorg/mass-core/massutil"
	"github.com/massnetorg/mass-core/wire"
	"massnet.org/mass-wallet/masswallet/keystore"
	"verifharness/sim"
)

func TestSmokeEnv(t *testing.T) {
	keystore.DefaultScryptOptions = keystore.ScryptOptions{N: 16, R: 8, P: 1}
	node, err := sim.NewNode()
	if err != nil {
		t.Fatal(err)
	}
	defer node.Close()
	env, err := sim.NewEnv(node, 20, nil)
	if err != nil {
		t.Fatal(err)
	}
	defer env.Close()
	if err := env.StartStepped(); err != nil {
		t.Fatal(err)
	}
	k, _ := sim.EntropyFor(make([]byte, 16), "passw0rd1")
	t0 := time.Now()
	ws, err := env.W.ImportWalletWithMnemonic(&keystore.WalletParams{Mnemonic: k.Mnemonic, PrivatePassphrase: []byte(k.Pass), Remarks: "r", AddressGapLimit: 20})
	if err != nil {
		t.Fatal(err)
	}
	t.Log("import", time.Since(t0), ws.WalletID, k.ID)
	if ws.WalletID != k.ID {
		t.Fatalf("id mismatch")
	}
	for i := 0; i < 3; i++ {
		ok, err := env.ServeWorker(2 * time.Second)
		t.Log("serve", ok, err)
		if !ok {
			break
		}
	}
	wl, _ := env.W.Wallets()
	for _, w := range wl {
		t.Log(w.WalletID, w.Status.Ready(), w.Status.SyncedHeight)
	}
	wi, err := env.W.UseWallet(k.ID)
	if err != nil {
		t.Fatal(err)
	}
	t.Log(wi)
	a0 := k.Addr(0)
	addrs, _ := env.W.GetAddresses(massutil.AddressClassWitnessV0)
	for _, a := range addrs {
		t.Log(a.Address, a.Used, a0.Std)
	}
	na, err := env.W.NewAddress(massutil.AddressClassWitnessV0)
	t.Log(na, err, k.Addr(1).Std)
	t1 := time.Now()
	for i := 0; i < 10; i++ {
		blk := node.NewBlock(node.Tip(), []*wire.TxOut{wire.NewTxOut(int64(1000+i), sim.StdScript(a0.ScriptHash))}, nil)
		if err := node.Attach(blk); err != nil {
			t.Fatal(err)
		}
		env.Announce(blk.MsgBlock())
		if _, err := env.Deliver(); err != nil {
			t.Fatal(err)
		}
	}
	t.Log("10 blocks", time.Since(t1))
	wb, err := env.W.WalletBalance(1, true)
	t.Log(wb, err)
	u, err := env.W.GetUtxo(nil)
	t.Log(len(u[a0.Std]), err)
	if err := node.DetachTip(); err != nil {
		t.Fatal(err)
	}
	blk := node.NewBlock(node.Tip(), nil, nil)
	if err := node.Attach(blk); err != nil {
		t.Fatal(err)
	}
	blk2 := node.NewBlock(node.Tip(), nil, nil)
	if err := node.Attach(blk2); err != nil {
		t.Fatal(err)
	}
	env.Announce(blk2.MsgBlock())
	_, err = env.Deliver()
	t.Log("reorg", err)
	wb, err = env.W.WalletBalance(1, true)
	t.Log(wb, err)
	h, _ := env.W.SyncedTo()
	t.Log("synced", h, node.Height())
}
