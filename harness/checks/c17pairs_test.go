//go:build verif

package checks

import (
	"encoding/hex"
	"flag"
	"fmt"
	"math"
	"os"
	"runtime/debug"
	"strconv"
	"strings"
	"sync"
	"sync/atomic"
	"time"

	"github.com/massnetorg/mass-core/massutil"
	"github.com/massnetorg/mass-core/wire"
	"massnet.org/mass-wallet/config"
	"massnet.org/mass-wallet/masswallet/keystore"
	"pgregory.net/rapid"
	"verifharness/guard"
	"verifharness/sim"
)

// ---- C17 (b'): pairs of operations hammered against each other under the race detector -----------
//
// The mixed workload of propC17b runs a dozen kinds of operation at once; the many locks they take
// order most accesses by accident (happens-before through some unrelated mutex), so a race between two
// particular operations shows only now and then. Here exactly TWO operations run against each other
// for a moment, on the same wallet, pair after pair from a fixed table: an unsynchronised access shared
// by the two is then very likely to be seen by the detector. Oracle = race detector (the job is built
// with -race; reports are triaged by the driver as for the workload) + no panic.

var c17PairCase int64 // cases of the pairs job run by this process so far

type c17op struct {
	name string
	run  func(stop <-chan struct{})
}

func propC17Pairs(t *rapid.T) {
	useProfile(profSmall)
	w := newWorld(t, 2, 20, nil)
	phase := "stepped"
	defer func() {
		switch phase {
		case "stepped":
			w.close()
			return
		case "live":
			guard.Call(30*time.Second, func() { w.env.W.Stop() })
		}
		w.closed = true
		w.apiForget()
		os.RemoveAll(w.env.Dir)
		w.node.Close()
	}()
	for i := 0; i < 5; i++ {
		w.actMine(t, true)
	}
	// spendable funds for the wallet the operations work on (several coins, so that creating and signing
	// succeeds again and again), matured by the blocks that follow
	for i := 0; i < 3; i++ {
		var outs []*wire.TxOut
		for j := 0; j < 4; j++ {
			outs = append(outs, wire.NewTxOut(900000000+int64(10*i+j), sim.StdScript(w.wallets[0].issued[0].Hash)))
		}
		w.mineFixed(t, outs, nil, true)
	}
	// a further wallet with history of its own, for the import / removal operation
	lateKeys, _ := sim.EntropyFor(rapid.SliceOfN(rapid.Byte(), 16, 16).Draw(t, "lateEntropy"), "pass9Xzz")
	if lateKeys != nil && (lateKeys.ID == w.wallets[0].id || lateKeys.ID == w.wallets[1].id) {
		lateKeys = nil
	}
	if lateKeys != nil {
		w.mineFixed(t, []*wire.TxOut{wire.NewTxOut(700000000, sim.StdScript(lateKeys.Addr(0).ScriptHash))}, nil, true)
	}
	w.deliverAll(t)
	w.finishTasks(t)
	if err := w.env.StopWallet(); err != nil {
		t.Fatalf("HARNESS-ERROR: %v", err)
	}
	phase = "closed"
	// for the live phase the gap limit is out of reach: NewAddress must keep succeeding for as long as
	// it is hammered (the wallets were imported under the ordinary limit)
	w.env.Cfg.Wallet.Settings.AddressGapLimit = 1000000
	if err := w.env.Open(false); err != nil {
		t.Fatalf("HARNESS: reopen: %v", err)
	}
	if err := w.env.W.Start(); err != nil {
		t.Fatalf("WalletManager.Start: %v", err)
	}
	phase = "live"
	W, H := w.env.W, w.env.H
	for dl := time.Now().Add(10 * time.Second); guard.WorkerState(w.env.HandlerPtr()) != "idle"; {
		if time.Now().After(dl) {
			t.Fatalf("HARNESS-ERROR: worker not idle after start")
		}
		time.Sleep(200 * time.Microsecond)
	}
	// blocks the follower will be told about while the pairs run: attached now, after Start() has caught
	// up (the simulated node is not touched afterwards), announced one by one by the "Blocks" operation
	var later []*wire.MsgBlock
	for i := 0; i < 60; i++ {
		w.actMine(t, false)
		later = append(later, w.node.Tip().MsgBlock())
	}
	w.env.Queue = nil
	id, pass := w.wallets[0].id, w.wallets[0].keys.Pass
	other := w.wallets[1].id
	addrs := w.wallets[0].stdAddrs()
	dest, _ := massutil.NewAddressWitnessScriptHash(w.strangers[0][:], config.ChainParams)
	loop := func(body func(n int)) func(stop <-chan struct{}) {
		return func(stop <-chan struct{}) {
			for n := 0; ; n++ {
				select {
				case <-stop:
					return
				default:
				}
				body(n)
			}
		}
	}
	nextBlock := 0
	var blkMu sync.Mutex
	var okNewAddr, okSign int64
	ops := []c17op{
		{"NewAddress", loop(func(n int) {
			W.UseWallet(id)
			if _, err := W.NewAddress(massutil.AddressClassWitnessV0); err == nil {
				atomic.AddInt64(&okNewAddr, 1)
			}
			time.Sleep(100 * time.Microsecond)
		})},
		{"Create+Sign", loop(func(n int) {
			W.UseWallet(id)
			if hexTx, _, err := W.AutoCreateRawTransaction(map[string]massutil.Amount{dest.EncodeAddress(): amountOf(20000000)}, 0, massutil.ZeroAmount(), "", "", nil); err == nil {
				raw, _ := hex.DecodeString(hexTx)
				var mtx wire.MsgTx
				if mtx.SetBytes(raw, wire.Packet) == nil {
					if _, err := W.SignRawTx([]byte(pass), "ALL", &mtx); err == nil {
						atomic.AddInt64(&okSign, 1)
					}
					W.ClearUsedUTXOMark(&mtx)
				}
			}
		})},
		{"Balances", loop(func(n int) {
			W.UseWallet(id)
			W.WalletBalance(1, true)
			W.AddressBalance(0, addrs)
			W.GetUtxo(nil)
		})},
		{"GetAddresses", loop(func(n int) {
			W.UseWallet(id)
			W.GetAddresses(math.MaxUint16)
		})},
		{"Histories", loop(func(n int) {
			W.UseWallet(id)
			W.GetStakingHistory(false)
			W.GetBindingHistory(false)
			W.GetTxHistory(10, "")
		})},
		{"UseWallet", loop(func(n int) {
			if n%2 == 0 {
				W.UseWallet(other)
			} else {
				W.UseWallet(id)
			}
		})},
		{"ExportWallet", loop(func(n int) {
			W.ExportWallet(id, pass)
			time.Sleep(200 * time.Microsecond)
		})},
		{"Wallets", loop(func(n int) {
			W.Wallets()
			W.CheckReady(id)
		})},
		{"WrongPassphrase", loop(func(n int) {
			W.UseWallet(id)
			W.GetMnemonic(id, "wrongPass12")
			W.ExportWallet(id, "wrongPass12")
		})},
		{"Blocks", func(stop <-chan struct{}) {
			for {
				select {
				case <-stop:
					return
				default:
				}
				blkMu.Lock()
				var b *wire.MsgBlock
				if nextBlock < len(later) {
					b = later[nextBlock]
					nextBlock++
				}
				blkMu.Unlock()
				if b == nil {
					time.Sleep(time.Millisecond)
					continue
				}
				H.OnBlockConnected(b)
				time.Sleep(2 * time.Millisecond)
			}
		}},
		{"Import+Remove", func(stop <-chan struct{}) {
			if lateKeys == nil {
				<-stop
				return
			}
			for {
				select {
				case <-stop:
					return
				default:
				}
				if _, err := W.ImportWalletWithMnemonic(&keystore.WalletParams{Mnemonic: lateKeys.Mnemonic, PrivatePassphrase: []byte(lateKeys.Pass), Remarks: "late", AddressGapLimit: 20}); err != nil {
					time.Sleep(time.Millisecond)
					continue
				}
				for i := 0; i < 400; i++ {
					if ok, _ := W.CheckReady(lateKeys.ID); ok {
						break
					}
					time.Sleep(500 * time.Microsecond)
				}
				for i := 0; i < 100; i++ {
					if err := W.RemoveWallet(lateKeys.ID, lateKeys.Pass); err == nil {
						break
					}
					time.Sleep(time.Millisecond)
				}
				// wait until it is gone before the next round
				for i := 0; i < 400; i++ {
					listed := false
					if wl, err := W.Wallets(); err == nil {
						for _, s := range wl {
							listed = listed || s.WalletID == lateKeys.ID
						}
					}
					if !listed {
						break
					}
					time.Sleep(500 * time.Microsecond)
				}
			}
		}},
	}
	type pair struct{ a, b int }
	var pairs []pair
	for i := range ops {
		for j := i; j < len(ops); j++ {
			if i == j && (ops[i].name == "Blocks" || ops[i].name == "Import+Remove") {
				continue
			}
			pairs = append(pairs, pair{i, j})
		}
	}
	// the pair table is walked, not sampled: case c of shard s takes the next `count` pairs after
	// (s*cases-per-shard + c)*count, so that one quick run (3 shards x 3 cases x 8 pairs) covers all
	// 64 pairs once and the thorough tier covers each many times
	count := 8
	if os.Getenv("VERIF_TIER") == "thorough" {
		count = 30
	}
	shard, perShard := int64(0), int64(3)
	if f := flag.Lookup("rapid.seed"); f != nil {
		if v, err := strconv.ParseInt(f.Value.String(), 10, 64); err == nil {
			shard = v % 100 // the driver passes VERIF_SEED*1000 + job offset*100 + shard
		}
	}
	if f := flag.Lookup("rapid.checks"); f != nil {
		if v, err := strconv.ParseInt(f.Value.String(), 10, 64); err == nil && v > 0 {
			perShard = v
		}
	}
	start := int((shard*perShard+atomic.AddInt64(&c17PairCase, 1)-1)*int64(count)) % len(pairs)
	fatalsBefore := guard.Fatals()
	for k := 0; k < count; k++ {
		p := pairs[(start+k)%len(pairs)]
		stop := make(chan struct{})
		var wg sync.WaitGroup
		panics := make(chan string, 2)
		for _, op := range []c17op{ops[p.a], ops[p.b]} {
			wg.Add(1)
			op := op
			go func() {
				defer wg.Done()
				defer func() {
					if r := recover(); r != nil {
						panics <- fmt.Sprintf("%s panicked: %v\n%s", op.name, r, debug.Stack())
					}
				}()
				op.run(stop)
			}()
		}
		// operations that take tens of milliseconds per round (signing derives keys, an import rescans)
		// get a longer window, so that they meet the other side more than once or twice
		window := 120 * time.Millisecond
		for _, slow := range []string{"Create+Sign", "Import+Remove", "ExportWallet", "WrongPassphrase"} {
			if ops[p.a].name == slow || ops[p.b].name == slow {
				window = 500 * time.Millisecond
			}
		}
		time.Sleep(window)
		close(stop)
		done := make(chan struct{})
		go func() { wg.Wait(); close(done) }()
		select {
		case <-done:
		case <-time.After(60 * time.Second):
			if guard.Fatals() > fatalsBefore {
				t.Fatalf("a wallet goroutine ended in a FATAL log exit while %s ran against %s\n%s", ops[p.a].name, ops[p.b].name, guard.LastFatal())
			}
			t.Fatalf("%s against %s: the calls did not return within 60 s (deadlock?)\n%s", ops[p.a].name, ops[p.b].name, wantedStacks(w.env.HandlerPtr()))
		}
		select {
		case msg := <-panics:
			t.Fatalf("%s", msg)
		default:
		}
		c17.Case(hkey("pair", ops[p.a].name, ops[p.b].name, strings.Join(w.journal[:3], "")), true, "race-pair:"+ops[p.a].name+"|"+ops[p.b].name)
	}
	o := guard.Call(60*time.Second, func() { W.Stop() })
	if o.Kind != "done" {
		t.Fatalf("HARNESS-ERROR: Stop did not return (%s) - see C20", o.Kind)
	}
	phase = "closed"
	c17.Label("race-pairs-successful-new-addresses", int(atomic.LoadInt64(&okNewAddr)))
	c17.Label("race-pairs-successful-signings", int(atomic.LoadInt64(&okSign)))
}
