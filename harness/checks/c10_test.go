//go:build verif

package checks

import (
	"encoding/hex"
	"fmt"
	"sort"
	"strings"
	"testing"

	"github.com/massnetorg/mass-core/consensus"
	"github.com/massnetorg/mass-core/massutil"
	"github.com/massnetorg/mass-core/wire"
	"massnet.org/mass-wallet/config"
	"massnet.org/mass-wallet/masswallet"
	"pgregory.net/rapid"
	"verifharness/ev"
)

// ---- C10: staking and binding deposits follow their lifecycle exactly ---------------------------

var c10 = ev.Open("C10", "exploration",
	"rapid state machine: C09's world with staking outputs (frozen period drawn from the legal range incl. the minimum), old-style "+
		"binding before the warm-up height and new-style binding after it, withdrawals of matured staking and old binding deposits, pending "+
		"versions of deposits and withdrawals delivered through the mempool step, reorganisations across deposit and withdrawal blocks. "+
		"Oracle = lifecycle model folded from the node's best chain (+ pending set): GetStakingHistory / GetBindingHistory (all and "+
		"excludeWithdrawn) compared as multisets of (tx, index, height, amount, address / holder+target, period, withdrawn, "+
		"spent-by-pending); withdrawable_* of WalletBalance at the consensus boundary (C01 audit); explicit-input withdrawals built by "+
		"the wallet must carry the consensus sequence (F+1 / binding lock) and the harness's sequence-lock replica must accept them at "+
		"exactly the height the wallet reports them withdrawable. Non-trivial = history with a deposit that was withdrawn, un-withdrawn "+
		"or un-confirmed by a reorg, or observed pending (distinct by journal hash).")

type depositRec struct {
	Op      wire.OutPoint
	Height  uint64 // 0 = pending
	Amount  int64
	Class   coinClass
	Hash    [32]byte
	Period  uint64
	Target  []byte
	Spent   bool
	SpentBy bool // spent by a pending transaction
}

// expectedDeposits folds the best chain (+ pending set) into the deposit list of one wallet.
func (w *World) expectedDeposits(m *mwallet) []depositRec {
	var out []depositRec
	spent := map[wire.OutPoint]bool{}
	for _, b := range w.node.Chain {
		for i, tx := range b.MsgBlock().Transactions {
			if i == 0 {
				continue
			}
			for _, in := range tx.TxIn {
				spent[in.PreviousOutPoint] = true
			}
		}
	}
	pendSpent := map[wire.OutPoint]bool{}
	for _, tx := range w.pending {
		for _, in := range tx.TxIn {
			pendSpent[in.PreviousOutPoint] = true
		}
	}
	add := func(tx *wire.MsgTx, height uint64) {
		h := tx.TxHash()
		for i, o := range tx.TxOut {
			cls, hash, period, target := classify(o.PkScript)
			if (cls == clsStaking || cls == clsBindingOld || cls == clsBindingNew) && m.owns[hash] {
				op := wire.OutPoint{Hash: h, Index: uint32(i)}
				out = append(out, depositRec{Op: op, Height: height, Amount: o.Value, Class: cls, Hash: hash, Period: period,
					Target: target, Spent: height != 0 && spent[op], SpentBy: height != 0 && !spent[op] && pendSpent[op]})
			}
		}
	}
	for _, b := range w.node.Chain {
		for _, tx := range b.MsgBlock().Transactions {
			add(tx, b.Height())
		}
	}
	for _, h := range w.pendingOrder() {
		add(w.pending[h], 0)
	}
	return out
}

func depKey(txid string, idx uint32, height uint64) string {
	return fmt.Sprintf("%s:%d@%d", txid, idx, height)
}

func (w *World) auditHistories(t *rapid.T) { w.auditHistoriesOpt(t, false) }

// auditHistoriesOpt with minedOnly ignores pending entries and spent-by-pending flags (used where the
// pending set is not modelled).
func (w *World) auditHistoriesOpt(t *rapid.T, minedOnly bool) {
	for wi, m := range w.wallets {
		ready, removing, exists := w.walletStatus(t, m.id)
		if !exists || !ready || removing {
			continue
		}
		if _, err := w.env.W.UseWallet(m.id); err != nil {
			t.Fatalf("UseWallet: %v", err)
		}
		exp := w.expectedDeposits(m)
		for _, exclude := range []bool{false, true} {
			wantS, wantB := map[string]depositRec{}, map[string]depositRec{}
			for _, d := range exp {
				if exclude && d.Spent {
					continue
				}
				if minedOnly && d.Height == 0 {
					continue
				}
				k := depKey(d.Op.Hash.String(), d.Op.Index, d.Height)
				if d.Class == clsStaking {
					wantS[k] = d
				} else {
					wantB[k] = d
				}
			}
			sh, err := w.env.W.GetStakingHistory(exclude)
			if err != nil {
				t.Fatalf("GetStakingHistory(%v): %v\n  %s", exclude, err, w.journalTail(20))
			}
			seen := map[string]bool{}
			for _, e := range sh {
				if minedOnly && e.BlockHeight == 0 {
					continue
				}
				k := depKey(e.TxHash.String(), e.Index, e.BlockHeight)
				if seen[k] {
					t.Fatalf("wallet %d: staking history lists %s twice", wi, k)
				}
				seen[k] = true
				d, ok := wantS[k]
				if !ok {
					t.Fatalf("wallet %d: staking history (excludeWithdrawn=%v) lists %s (amount %d, spent=%v) which is not a staking deposit of this wallet on the best chain / pending set\n  %s\n%s", wi, exclude, k, amt(e.Utxo.Amount), e.Utxo.Spent, w.journalTail(25), dumpDeposits(exp))
				}
				stk, _ := massutil.NewAddressStakingScriptHash(d.Hash[:], config.ChainParams)
				if amt(e.Utxo.Amount) != d.Amount || e.Utxo.Address != stk.EncodeAddress() || uint64(e.Utxo.FrozenPeriod) != d.Period ||
					e.Utxo.Hash != d.Op.Hash || e.Utxo.Index != d.Op.Index {
					t.Fatalf("wallet %d: staking history %s = amount %d addr %s period %d, chain says amount %d addr %s period %d", wi, k, amt(e.Utxo.Amount), e.Utxo.Address, e.Utxo.FrozenPeriod, d.Amount, stk.EncodeAddress(), d.Period)
				}
				if e.Utxo.Spent != d.Spent {
					t.Fatalf("wallet %d: staking deposit %s withdrawn=%v, best chain spends it: %v\n  %s", wi, k, e.Utxo.Spent, d.Spent, w.journalTail(25))
				}
				if !minedOnly && d.Height != 0 && e.Utxo.SpentByUnmined != d.SpentBy {
					t.Fatalf("wallet %d: staking deposit %s spent_by_unmined=%v want %v", wi, k, e.Utxo.SpentByUnmined, d.SpentBy)
				}
			}
			for k, d := range wantS {
				if !seen[k] {
					t.Fatalf("wallet %d: staking deposit %s (amount %d, period %d, withdrawn=%v) is on the best chain / pending but missing from GetStakingHistory(excludeWithdrawn=%v)\n  %s", wi, k, d.Amount, d.Period, d.Spent, exclude, w.journalTail(25))
				}
			}
			bh, err := w.env.W.GetBindingHistory(exclude)
			if err != nil {
				t.Fatalf("GetBindingHistory(%v): %v\n  %s", exclude, err, w.journalTail(20))
			}
			seen = map[string]bool{}
			for _, e := range bh {
				if minedOnly && e.BlockHeight == 0 {
					continue
				}
				k := depKey(e.TxHash.String(), e.Index, e.BlockHeight)
				if seen[k] {
					t.Fatalf("wallet %d: binding history lists %s twice", wi, k)
				}
				seen[k] = true
				d, ok := wantB[k]
				if !ok {
					t.Fatalf("wallet %d: binding history (excludeWithdrawn=%v) lists %s which is not a binding deposit of this wallet on the best chain / pending set\n  %s\n%s", wi, exclude, k, w.journalTail(25), dumpDeposits(exp))
				}
				holder, _ := massutil.NewAddressWitnessScriptHash(d.Hash[:], config.ChainParams)
				var target massutil.Address
				if len(d.Target) == 20 {
					target, _ = massutil.NewAddressPubKeyHash(d.Target, config.ChainParams)
				} else {
					target, _ = massutil.NewAddressBindingTarget(d.Target, config.ChainParams)
				}
				if amt(e.Utxo.Amount) != d.Amount || e.Utxo.Holder.EncodeAddress() != holder.EncodeAddress() || e.Utxo.BindingTarget.EncodeAddress() != target.EncodeAddress() {
					t.Fatalf("wallet %d: binding history %s = amount %d holder %s target %s, chain says %d %s %s", wi, k, amt(e.Utxo.Amount), e.Utxo.Holder.EncodeAddress(), e.Utxo.BindingTarget.EncodeAddress(), d.Amount, holder.EncodeAddress(), target.EncodeAddress())
				}
				if e.Utxo.Spent != d.Spent {
					t.Fatalf("wallet %d: binding deposit %s withdrawn=%v, best chain spends it: %v\n  %s", wi, k, e.Utxo.Spent, d.Spent, w.journalTail(25))
				}
				if !minedOnly && d.Height != 0 && e.Utxo.SpentByUnmined != d.SpentBy {
					t.Fatalf("wallet %d: binding deposit %s spent_by_unmined=%v want %v", wi, k, e.Utxo.SpentByUnmined, d.SpentBy)
				}
				if e.MsgTx == nil || e.MsgTx.TxHash() != d.Op.Hash {
					t.Fatalf("wallet %d: binding history %s carries the wrong transaction", wi, k)
				}
			}
			for k, d := range wantB {
				if !seen[k] {
					t.Fatalf("wallet %d: binding deposit %s (amount %d, withdrawn=%v) is on the best chain / pending but missing from GetBindingHistory(excludeWithdrawn=%v)\n  %s", wi, k, d.Amount, d.Spent, exclude, w.journalTail(25))
				}
			}
		}
		// the same histories as clients see them through the API handlers (entries and status codes)
		w.auditHistoriesAPI(t, wi, m, exp, minedOnly)
		// deposits are never spendable funds nor picked by automatic selection (also covered by C01's Spendable figure)
		if !minedOnly {
			w.checkWithdrawalSequences(t, wi, m, exp)
		}
	}
}

// checkWithdrawalSequences lets the wallet build explicit-input withdrawals and checks the sequence numbers.
func (w *World) checkWithdrawalSequences(t *rapid.T, wi int, m *mwallet, exp []depositRec) {
	tip := w.node.Height()
	var cands []depositRec
	for _, d := range exp {
		if d.Height != 0 && !d.Spent {
			cands = append(cands, d)
		}
	}
	if len(cands) == 0 || rapid.IntRange(0, 1).Draw(t, "tryWithdraw") == 1 {
		return
	}
	d := cands[rapid.IntRange(0, len(cands)-1).Draw(t, "withdrawWhich")]
	dest, _ := massutil.NewAddressWitnessScriptHash(w.strangers[0][:], config.ChainParams)
	value := d.Amount / 2
	if value < 10000 {
		return
	}
	a, _ := massutil.NewAmountFromInt(value)
	// a lock time on the transaction must not change what the deposit input carries
	lockTime := uint64(0)
	if rapid.IntRange(0, 2).Draw(t, "withLockTime") == 0 {
		lockTime = rapid.Uint64Range(1, tip+5).Draw(t, "lockTime")
		w.flag("withdrawal-draft-with-lock-time")
	}
	hexTx, _, err := w.env.W.CreateRawTransaction([]*masswallet.TxIn{{TxId: d.Op.Hash.String(), Vout: d.Op.Index}},
		map[string]massutil.Amount{dest.EncodeAddress(): a}, lockTime, m.issued[0].Std, nil)
	if err != nil {
		w.logf("withdrawal draft of %v refused: %v", d.Op, err)
		return
	}
	raw, _ := hex.DecodeString(hexTx)
	var mtx wire.MsgTx
	if err := mtx.SetBytes(raw, wire.Packet); err != nil {
		t.Fatalf("CreateRawTransaction returned undecodable hex: %v", err)
	}
	w.env.W.ClearUsedUTXOMark(&mtx)
	if len(mtx.TxIn) != 1 || mtx.TxIn[0].PreviousOutPoint != d.Op {
		t.Fatalf("withdrawal draft does not spend exactly the requested deposit")
	}
	coin := &Coin{Op: d.Op, Height: d.Height, Class: d.Class, Period: d.Period}
	seq := mtx.TxIn[0].Sequence
	switch d.Class {
	case clsStaking, clsBindingNew:
		if seq != requiredSequence(coin) {
			t.Fatalf("wallet %d: withdrawal of %s deposit %v carries sequence %d, consensus requires %d", wi, d.Class, d.Op, seq, requiredSequence(coin))
		}
	case clsBindingOld:
		if seq&wire.SequenceLockTimeDisabled == 0 && seq&wire.SequenceLockTimeMask != 0 {
			t.Fatalf("wallet %d: withdrawal of old-style binding %v carries a relative lock (sequence %d)", wi, d.Op, seq)
		}
	}
	// replica of calcSequenceLock + SequenceLockActive for a block at tip+1
	active := true
	if seq&wire.SequenceLockTimeDisabled == 0 {
		lockHeight := d.Height + (seq & wire.SequenceLockTimeMask) - 1
		active = lockHeight < tip+1
	}
	confs := tip - d.Height + 1
	walletSays := confs >= requiredConfs(coin) // the wallet's own flag is compared with this in the C01 audit
	if d.Class == clsStaking && active != walletSays {
		t.Fatalf("wallet %d tip %d: staking deposit %v (height %d, period %d): consensus sequence lock active=%v for the built withdrawal (sequence %d) but withdrawable=%v", wi, tip, d.Op, d.Height, d.Period, active, seq, walletSays)
	}
	w.flag("withdrawal-draft-" + d.Class.String())
}

func dumpDeposits(ds []depositRec) string {
	var sb strings.Builder
	sort.Slice(ds, func(i, j int) bool { return ds[i].Height < ds[j].Height })
	for _, d := range ds {
		fmt.Fprintf(&sb, "    model deposit %s:%d h=%d %s amount=%d period=%d spent=%v spentByPending=%v\n", d.Op.Hash.String()[:10], d.Op.Index, d.Height, d.Class, d.Amount, d.Period, d.Spent, d.SpentBy)
	}
	return sb.String()
}

func propC10(t *rapid.T) {
	useProfile(profSmall)
	nW := rapid.IntRange(1, 2).Draw(t, "wallets")
	if rapid.IntRange(0, 3).Draw(t, "withInternal") == 0 {
		// wallets restored with internal (change-branch) addresses, which receive coins like the others
		worldInternalHint = uint32(rapid.IntRange(1, 2).Draw(t, "internalIndex"))
	}
	w := newWorld(t, nW, 20, nil)
	worldInternalHint = 0
	defer w.close()
	w.c09mode = true
	w.depositsInMempool = true
	w.allowNullData = false
	for i := 0; i < 6; i++ {
		w.withChainChange(t, func() { w.actMine(t, true) })
	}
	_ = consensus.MinFrozenPeriod
	t.Repeat(map[string]func(*rapid.T){
		"newAddress": func(t *rapid.T) {
			m := w.wallets[rapid.IntRange(0, len(w.wallets)-1).Draw(t, "wallet")]
			if len(m.issued) >= 4 {
				t.Skip("enough addresses")
			}
			class := uint16(massutil.AddressClassWitnessV0)
			if rapid.Bool().Draw(t, "stakingClass") {
				class = massutil.AddressClassWitnessStaking
			}
			if _, err := w.issueAddress(t, m, class); err != nil {
				t.Fatalf("NewAddress: %v", err)
			}
		},
		"mempool": w.actMempool,
		"mine":    func(t *rapid.T) { w.withChainChange(t, func() { w.actMine(t, true) }) },
		"mine2":   func(t *rapid.T) { w.withChainChange(t, func() { w.actMine(t, true) }) },
		"mine3":   func(t *rapid.T) { w.withChainChange(t, func() { w.actMine(t, true) }) },
		"reorg":   func(t *rapid.T) { w.withChainChange(t, func() { w.actReorg(t) }) },
		"": func(t *rapid.T) {
			w.auditHistories(t)
			w.auditPending(t)
			w.auditLedger(t)
		},
	})
	flags := w.sortedFlags()
	nt := (w.flags["staking-output"] || w.flags["binding-old-output"] || w.flags["binding-new-output"] || w.flags["pending-staking-deposit"] || w.flags["pending-binding-deposit"]) &&
		(w.flags["staking-withdrawal"] || w.flags["binding-withdrawal"] || w.flags["reorg-disconnects-relevant-tx"] || w.flags["pending-staking-deposit"] || w.flags["pending-binding-deposit"])
	c10.Case(hkey(strings.Join(w.journal, "\n")), nt, flags...)
	if nt {
		c10.Sample(strings.Join(flags, "+"), 1, w.journal)
	}
}

func TestC10(t *testing.T) {
	t.Run("lifecycle", rapid.MakeCheck(propC10))
}
