package checks

import (
	"bytes"
	"crypto/sha256"
	"encoding/hex"
	"fmt"
	"math/big"
	"strings"
	"testing"

	"github.com/btcsuite/btcd/btcec"
	"github.com/massnetorg/mass-core/config"
	"massnet.org/mass-wallet/masswallet/keystore/hdkeychain"
	"pgregory.net/rapid"
	"verifharness/ev"
	"verifharness/ref"
)

// ---- C14: hierarchical key derivation is exactly BIP-32 --------------------------------------

var c14 = ev.Open("C14", "exploration",
	"rapid-generated seeds (16-64 bytes) x paths of depth <= 6 mixing hardened / non-hardened / boundary indexes, with a targeted "+
		"sub-generator that scans hardened children for parents whose private scalar has leading zero bytes; serialised keys with "+
		"single-byte corruptions, re-checksummed field edits, wrong lengths, off-curve points, scalars 0 / >= n. Oracle = independent "+
		"BIP-32 reference (fixed-width scalars) validated on spec vectors 1-4 + invalid keys of vector 5. Non-trivial = path with >= 2 "+
		"levels mixing hardened and non-hardened steps, or containing a short-scalar parent, or a corruption case (distinct by hash).")

const bip32ShortKey = "bip32-short-scalar-hardened-child"

func idxGen() *rapid.Generator[uint32] {
	return rapid.OneOf(
		rapid.Uint32Range(0, 5),
		rapid.Uint32Range(ref.H, ref.H+5),
		rapid.SampledFrom([]uint32{0x7fffffff, 0x7ffffffe, 0xffffffff, 0xfffffffe, 44 + ref.H, 297 + ref.H, 1 + ref.H}),
		rapid.Uint32(),
	)
}

// cmpKey compares a repo key with the reference key.
func cmpKey(where string, got *hdkeychain.ExtendedKey, want *ref.XKey) error {
	if got.IsPrivate() != want.Priv {
		return fmt.Errorf("%s: IsPrivate=%v want %v", where, got.IsPrivate(), want.Priv)
	}
	if got.String() != want.String() {
		return fmt.Errorf("%s: serialisation\n got  %s\n want %s", where, got.String(), want.String())
	}
	if got.Depth() != want.Depth {
		return fmt.Errorf("%s: depth %d want %d", where, got.Depth(), want.Depth)
	}
	if fp := got.ParentFingerprint(); fp != uint32(want.ParentFP[0])<<24|uint32(want.ParentFP[1])<<16|uint32(want.ParentFP[2])<<8|uint32(want.ParentFP[3]) {
		return fmt.Errorf("%s: parent fingerprint %08x want %x", where, fp, want.ParentFP)
	}
	pk, err := got.ECPubKey()
	if err != nil || !bytes.Equal(pk.SerializeCompressed(), want.P[:]) {
		return fmt.Errorf("%s: public key %v want %x", where, err, want.P)
	}
	if want.Priv {
		sk, err := got.ECPrivKey()
		if err != nil {
			return fmt.Errorf("%s: ECPrivKey %v", where, err)
		}
		if sk.D.Cmp(new(big.Int).SetBytes(want.K[:])) != 0 {
			return fmt.Errorf("%s: private scalar %x want %x", where, sk.D.Bytes(), want.K)
		}
		n, err := got.Neuter()
		if err != nil || n.String() != want.Neuter().String() {
			return fmt.Errorf("%s: Neuter() = %v,%v want %s", where, n, err, want.Neuter().String())
		}
	}
	return nil
}

// shortParentReproducer: deterministic instance of the known deviation.
// Returns (mismatch, description).
func shortParentReproducer() (bool, string) {
	seed := sha256.Sum256([]byte("verif C14 short scalar"))
	rm, _ := ref.XMaster(seed[:])
	gm, _ := hdkeychain.NewMaster(seed[:], &config.ChainParams)
	for i := uint32(ref.H); i < ref.H+20000; i++ {
		rc, err := rm.Child(i)
		if err != nil || rc.K[0] != 0 {
			continue
		}
		gc, err := gm.Child(i)
		if err != nil {
			return true, fmt.Sprintf("Child(%d) error %v", i, err)
		}
		rcc, _ := rc.Child(ref.H)
		gcc, err := gc.Child(ref.H)
		if err != nil {
			return true, fmt.Sprintf("Child(%d).Child(0H) error %v", i, err)
		}
		if gcc.String() != rcc.String() {
			return true, fmt.Sprintf("seed=%x path=m/%dH/0H: parent scalar %x has a leading zero byte; got %s want %s",
				seed, i-ref.H, rc.K, gcc.String(), rcc.String())
		}
		return false, ""
	}
	return false, "no short scalar found"
}

var c14ExcludeShort = false

func propC14Derive(t *rapid.T) {
	seedLen := rapid.IntRange(16, 64).Draw(t, "seedLen")
	seed := rapid.SliceOfN(rapid.Byte(), seedLen, seedLen).Draw(t, "seed")
	want, rerr := ref.XMaster(seed)
	got, gerr := hdkeychain.NewMaster(seed, &config.ChainParams)
	if (rerr == nil) != (gerr == nil) {
		t.Fatalf("NewMaster(%x): err=%v reference err=%v", seed, gerr, rerr)
	}
	if rerr != nil {
		return
	}
	if err := cmpKey("m", got, want); err != nil {
		t.Fatalf("seed %x: %v", seed, err)
	}
	depth := rapid.IntRange(1, 6).Draw(t, "depth")
	target := rapid.IntRange(0, 3).Draw(t, "targetShort") == 0
	path := "m"
	hardened, plain, short, pubSteps := 0, 0, 0, 0
	wantPub, gotPub := (*ref.XKey)(nil), (*hdkeychain.ExtendedKey)(nil)
	for d := 0; d < depth; d++ {
		var i uint32
		if target && d < depth-1 && want.Priv {
			// scan hardened children of the current private key for a short scalar
			found := false
			base := uint32(ref.H) + rapid.Uint32Range(0, 1<<20).Draw(t, "scanBase")
			for j := uint32(0); j < 700; j++ {
				c, err := want.Child(base + j)
				if err == nil && c.K[0] == 0 {
					i, found = base+j, true
					break
				}
			}
			if !found {
				i = idxGen().Draw(t, "idx")
			}
			target = false
		} else {
			i = idxGen().Draw(t, "idx")
		}
		parentShort := want.Priv && want.K[0] == 0
		wc, werr := want.Child(i)
		if parentShort && i >= ref.H && c14ExcludeShort {
			// known deviation (see known_findings.json): everything below this node differs
			c14.Excluded(1)
			short++
			break
		}
		gc, gerr := got.Child(i)
		if (werr == nil) != (gerr == nil) {
			t.Fatalf("seed %x %s/%d: Child err=%v reference err=%v", seed, path, i, gerr, werr)
		}
		if werr != nil {
			return
		}
		path = fmt.Sprintf("%s/%d", path, i)
		if err := cmpKey(path, gc, wc); err != nil {
			t.Fatalf("seed %x: %v (parent scalar %x)", seed, err, want.K)
		}
		if i < ref.H {
			plain++
			// public derivation == neutered private derivation
			np, _ := got.Neuter()
			pc, err := np.Child(i)
			if err != nil {
				t.Fatalf("seed %x %s: public Child error %v", seed, path, err)
			}
			if pc.String() != wc.Neuter().String() {
				t.Fatalf("seed %x %s: CKDpub != N(CKDpriv): %s vs %s", seed, path, pc.String(), wc.Neuter().String())
			}
			if pc.IsPrivate() {
				t.Fatalf("public child is private")
			}
			pubSteps++
			wantPub, gotPub = wc.Neuter(), pc
		} else {
			hardened++
			np, _ := got.Neuter()
			if _, err := np.Child(i); err == nil {
				t.Fatalf("seed %x %s: hardened child from public key accepted", seed, path)
			}
		}
		if parentShort {
			short++
		}
		// parse round trip of both forms
		for _, s := range []string{wc.String(), wc.Neuter().String()} {
			pk, err := hdkeychain.NewKeyFromString(s)
			if err != nil {
				t.Fatalf("NewKeyFromString(%s): %v", s, err)
			}
			if pk.String() != s {
				t.Fatalf("NewKeyFromString(%s).String() = %s", s, pk.String())
			}
			if wc.Priv && s == wc.String() {
				// equally derivable
				j := idxGen().Draw(t, "rtIdx")
				a, aerr := pk.Child(j)
				b, berr := wc.Child(j)
				if wc.K[0] == 0 && j >= ref.H {
					// parsed keys are 32 bytes wide: must match the spec here
				}
				if (aerr == nil) != (berr == nil) || (aerr == nil && a.String() != b.String()) {
					t.Fatalf("parsed key %s child %d: %v,%v want %v", s, j, a, aerr, b)
				}
			}
		}
		want, got = wc, gc
	}
	// continue one level below the last public key (pure public chain)
	if wantPub != nil {
		j := rapid.Uint32Range(0, 0x7fffffff).Draw(t, "pubIdx")
		a, aerr := gotPub.Child(j)
		b, berr := wantPub.Child(j)
		if (aerr == nil) != (berr == nil) || (aerr == nil && a.String() != b.String()) {
			t.Fatalf("public chain %s/%d: %v,%v want %v", path, j, a, aerr, b)
		}
	}
	nontriv := (hardened > 0 && plain > 0) || short > 0
	labels := []string{fmt.Sprintf("depth:%d", depth)}
	if short > 0 {
		labels = append(labels, "short-scalar-parent")
	}
	if hardened > 0 && plain > 0 {
		labels = append(labels, "mixed-path")
	}
	c14.Case(hkey("d", seed, path), nontriv, labels...)
	if short > 0 {
		c14.Sample("short-scalar-parent", 2, map[string]string{"seed": hex.EncodeToString(seed), "path": path})
	} else {
		c14.Sample("derive", 2, map[string]string{"seed": hex.EncodeToString(seed), "path": path})
	}
}

func reChecksum(payload []byte) string { return ref.Base58Check(payload) }

func propC14Parse(t *rapid.T) {
	seed := rapid.SliceOfN(rapid.Byte(), 16, 64).Draw(t, "seed")
	k, err := ref.XMaster(seed)
	if err != nil {
		return
	}
	for d := rapid.IntRange(0, 3).Draw(t, "depth"); d > 0; d-- {
		c, err := k.Child(idxGen().Draw(t, "idx"))
		if err != nil {
			return
		}
		k = c
	}
	if rapid.Bool().Draw(t, "pub") {
		k = k.Neuter()
	}
	payload := k.Serialize()
	kind := rapid.IntRange(0, 7).Draw(t, "kind")
	var s, label string
	switch kind {
	case 0: // single-byte corruption of the 82-byte string, checksum not repaired
		raw := ref.Base58Decode(k.String())
		i := rapid.IntRange(0, len(raw)-1).Draw(t, "pos")
		raw[i] ^= byte(rapid.IntRange(1, 255).Draw(t, "xor"))
		s, label = ref.Base58(raw), "byte-flip"
	case 1: // single character substitution in the base58 text
		b := []byte(k.String())
		i := rapid.IntRange(0, len(b)-1).Draw(t, "pos")
		c := "123456789ABCDEFGHJKLMNPQRSTUVWXYZabcdefghijkmnopqrstuvwxyz0OIl+/ "[rapid.IntRange(0, 64).Draw(t, "ch")]
		if b[i] == c {
			return
		}
		b[i] = c
		s, label = string(b), "char-subst"
	case 2: // wrong length (payload cut or extended), checksum repaired
		n := rapid.IntRange(0, 100).Draw(t, "len")
		if n == 78 {
			n = 77
		}
		p := make([]byte, n)
		copy(p, payload)
		s, label = reChecksum(p), "wrong-length"
	case 3: // header / chain code edit with repaired checksum: must parse and equal the reference
		i := rapid.IntRange(4, 44).Draw(t, "pos")
		payload[i] ^= byte(rapid.IntRange(1, 255).Draw(t, "xor"))
		s, label = reChecksum(payload), "header-edit"
	case 4: // key material: private scalar 0 or >= n
		payload[45] = 0
		if rapid.Bool().Draw(t, "zero") {
			for i := 46; i < 78; i++ {
				payload[i] = 0
			}
		} else {
			n := new(big.Int).Add(btcec.S256().N, big.NewInt(int64(rapid.IntRange(0, 1000).Draw(t, "over"))))
			nb := n.Bytes()
			copy(payload[46:], nb)
		}
		s, label = reChecksum(payload), "scalar-range"
	case 5: // public key prefix / x coordinate edits
		np := k.Neuter().Serialize()
		if rapid.Bool().Draw(t, "prefix") {
			np[45] = byte(rapid.IntRange(0, 255).Draw(t, "pfx"))
		} else {
			i := rapid.IntRange(46, 77).Draw(t, "pos")
			np[i] ^= byte(rapid.IntRange(1, 255).Draw(t, "xor"))
		}
		s, label = reChecksum(np), "pubkey-edit"
	case 6: // garbage strings
		s, label = rapid.StringMatching(`[1-9A-HJ-NP-Za-km-z]{0,120}`).Draw(t, "garbage"), "garbage"
	case 7:
		s, label = k.String(), "identity"
	}
	want, werr := ref.XParse(s)
	got, gerr := hdkeychain.NewKeyFromString(s)
	// a 0x00 key prefix selects "private" in both; the spec says nothing else about 0x00+pubkey-version, so only
	// checksum / length / key-material validity is asserted (the statement's list).
	if (werr == nil) != (gerr == nil) {
		t.Fatalf("NewKeyFromString(%q) [%s]: err=%v, reference err=%v", s, label, gerr, werr)
	}
	acc := "rejected"
	if werr == nil {
		acc = "accepted"
		if got.String() != want.String() {
			t.Fatalf("NewKeyFromString(%q) re-serialises to %s want %s", s, got.String(), want.String())
		}
		if got.IsPrivate() != want.Priv || got.Depth() != want.Depth {
			t.Fatalf("NewKeyFromString(%q): private=%v depth=%d want %v %d", s, got.IsPrivate(), got.Depth(), want.Priv, want.Depth)
		}
		j := rapid.Uint32Range(0, 0x7fffffff).Draw(t, "child")
		a, aerr := got.Child(j)
		b, berr := want.Child(j)
		if want.Depth != 255 && ((aerr == nil) != (berr == nil) || (aerr == nil && a.String() != b.String())) {
			t.Fatalf("parsed %q child %d differs: %v %v vs %v %v", s, j, a, aerr, b, berr)
		}
	}
	c14.Case(hkey("p", s), label != "identity", "parse:"+label, "parse:"+label+":"+acc)
	c14.Sample("parse:"+label+":"+acc, 1, map[string]string{"input": s})
}

// propC14Pool is a state machine over a pool of keys that share ancestry (and possibly memory):
// keys are created from seeds, parsed from strings, derived from pool members and neutered; after
// every operation EVERY key of the pool must still equal its reference (operations on one key must
// not disturb another - parsed keys and their descendants may share backing arrays).
func propC14Pool(t *rapid.T) {
	type ent struct {
		got  *hdkeychain.ExtendedKey
		want *ref.XKey
		how  string
		dead bool // wiped with Zero(), or sharing memory with a wiped key
	}
	seed := rapid.SliceOfN(rapid.Byte(), 16, 64).Draw(t, "seed")
	wm, rerr := ref.XMaster(seed)
	gm, gerr := hdkeychain.NewMaster(seed, &config.ChainParams)
	if rerr != nil || gerr != nil {
		if (rerr == nil) != (gerr == nil) {
			t.Fatalf("NewMaster(%x): err=%v reference err=%v", seed, gerr, rerr)
		}
		return
	}
	pool := []ent{{got: gm, want: wm, how: "m"}}
	ops, parsed, strOnChildOfParsed := 0, 0, false
	wiped := 0
	fromParsed := map[int]bool{}
	check := func(after string) {
		for i, e := range pool {
			if e.dead {
				continue
			}
			if err := cmpKey(fmt.Sprintf("key #%d (%s) after %s", i, e.how, after), e.got, e.want); err != nil {
				t.Fatalf("seed %x: %v", seed, err)
			}
		}
	}
	t.Repeat(map[string]func(*rapid.T){
		"child": func(t *rapid.T) {
			if len(pool) >= 12 {
				t.Skip("pool full")
			}
			pi := rapid.IntRange(0, len(pool)-1).Draw(t, "parent")
			p := pool[pi]
			if p.dead {
				t.Skip("wiped")
			}
			i := idxGen().Draw(t, "idx")
			if !p.want.Priv && i >= ref.H {
				i -= ref.H
			}
			if p.want.Priv && i >= ref.H && p.want.K[0] == 0 && c14ExcludeShort {
				c14.Excluded(1)
				t.Skip("known class")
			}
			wc, werr := p.want.Child(i)
			gc, gerr := p.got.Child(i)
			if (werr == nil) != (gerr == nil) {
				t.Fatalf("Child(%d) of %s: err=%v reference err=%v", i, p.how, gerr, werr)
			}
			if werr != nil {
				return
			}
			pool = append(pool, ent{got: gc, want: wc, how: fmt.Sprintf("%s/%d", p.how, i)})
			fromParsed[len(pool)-1] = fromParsed[pi]
			ops++
			check("Child")
		},
		"neuter": func(t *rapid.T) {
			if len(pool) >= 12 {
				t.Skip("pool full")
			}
			pi := rapid.IntRange(0, len(pool)-1).Draw(t, "key")
			p := pool[pi]
			if p.dead {
				t.Skip("wiped")
			}
			n, err := p.got.Neuter()
			if err != nil {
				t.Fatalf("Neuter(%s): %v", p.how, err)
			}
			pool = append(pool, ent{got: n, want: p.want.Neuter(), how: "N(" + p.how + ")"})
			fromParsed[len(pool)-1] = fromParsed[pi]
			ops++
			check("Neuter")
		},
		"string": func(t *rapid.T) {
			pi := rapid.IntRange(0, len(pool)-1).Draw(t, "key")
			p := pool[pi]
			if p.dead {
				t.Skip("wiped")
			}
			if got := p.got.String(); got != p.want.String() {
				t.Fatalf("String(%s) = %s want %s", p.how, got, p.want.String())
			}
			if fromParsed[pi] {
				strOnChildOfParsed = true
			}
			ops++
			check("String of " + p.how)
		},
		"zero": func(t *rapid.T) {
			// the wallet wipes every key it has finished with (derive a child, use it, Zero() it, derive the
			// next one from the same parent): wiping one key must leave all the others what they were.
			// Neutered copies share memory with their original by design (as in btcd), so only keys made
			// by Child are wiped here, and copies neutered from a wiped key are retired with it.
			pi := rapid.IntRange(0, len(pool)-1).Draw(t, "key")
			p := pool[pi]
			if p.dead || pi == 0 || strings.HasPrefix(p.how, "N(") || strings.HasPrefix(p.how, "parse(") {
				t.Skip("not a derived child")
			}
			live := 0
			for _, e := range pool {
				if !e.dead {
					live++
				}
			}
			if live <= 2 {
				t.Skip("keep some keys")
			}
			p.got.Zero()
			pool[pi].dead = true
			for i := range pool {
				base := pool[i].how
				for strings.HasPrefix(base, "N(") && strings.HasSuffix(base, ")") {
					base = base[2 : len(base)-1]
				}
				if base == p.how && pool[i].how != p.how {
					pool[i].dead = true // N(x), N(N(x)), ...: same memory
				}
			}
			wiped++
			ops++
			check("Zero of " + p.how)
		},
		"parse": func(t *rapid.T) {
			if len(pool) >= 12 {
				t.Skip("pool full")
			}
			pi := rapid.IntRange(0, len(pool)-1).Draw(t, "key")
			p := pool[pi]
			if p.dead {
				t.Skip("wiped")
			}
			k, err := hdkeychain.NewKeyFromString(p.want.String())
			if err != nil {
				t.Fatalf("NewKeyFromString(%s): %v", p.want.String(), err)
			}
			pool = append(pool, ent{got: k, want: p.want, how: "parse(" + p.how + ")"})
			fromParsed[len(pool)-1] = true
			parsed++
			ops++
			check("NewKeyFromString")
		},
	})
	labels := []string{fmt.Sprintf("pool:%d", len(pool))}
	if parsed > 0 {
		labels = append(labels, "pool-with-parsed-key")
	}
	if strOnChildOfParsed {
		labels = append(labels, "string-of-key-descending-from-a-parsed-key")
	}
	if wiped > 0 {
		labels = append(labels, "a-derived-key-wiped-then-more-derivations")
	}
	c14.Case(hkey("pool", seed, ops, len(pool)), len(pool) >= 3, labels...)
}

func TestC14(t *testing.T) {
	// known-finding reproducer first; the generator excludes the class only while it still fails
	mismatch, desc := shortParentReproducer()
	if mismatch {
		if what, ok := isKnown("C14", bip32ShortKey); ok {
			c14.Known(bip32ShortKey, what+" ["+desc+"]")
			c14ExcludeShort = true
		}
	}
	t.Run("vectors", func(t *testing.T) {
		for _, v := range ref.Bip32Vectors() {
			seed, _ := hex.DecodeString(v.SeedHex)
			k, err := hdkeychain.NewMaster(seed, &config.ChainParams)
			if err != nil {
				t.Fatal(err)
			}
			rk, _ := ref.XMaster(seed)
			skip := false
			for _, i := range v.Path {
				if c14ExcludeShort && rk.K[0] == 0 && i >= ref.H {
					skip = true
					break
				}
				rk, _ = rk.Child(i)
				if k, err = k.Child(i); err != nil {
					t.Fatal(err)
				}
			}
			if skip {
				c14.Excluded(1)
				continue
			}
			if k.String() != v.Prv {
				t.Fatalf("BIP-32 vector seed %s path %v: xprv %s want %s", v.SeedHex[:16], v.Path, k.String(), v.Prv)
			}
			n, _ := k.Neuter()
			if n.String() != v.Pub {
				t.Fatalf("BIP-32 vector seed %s path %v: xpub %s want %s", v.SeedHex[:16], v.Path, n.String(), v.Pub)
			}
			c14.Case(hkey("vec", v.SeedHex, v.Path), true, "spec-vector")
		}
	})
	t.Run("derive", rapid.MakeCheck(propC14Derive))
	t.Run("parse", rapid.MakeCheck(propC14Parse))
	t.Run("pool", rapid.MakeCheck(propC14Pool))
}

func FuzzC14(f *testing.F) {
	for _, v := range ref.Bip32Vectors() {
		f.Add(v.Prv)
		f.Add(v.Pub)
	}
	f.Add("")
	f.Fuzz(func(t *testing.T, s string) {
		want, werr := ref.XParse(s)
		got, gerr := hdkeychain.NewKeyFromString(s)
		if (werr == nil) != (gerr == nil) {
			t.Fatalf("NewKeyFromString(%q): err=%v reference err=%v", s, gerr, werr)
		}
		if werr == nil && got.String() != want.String() {
			t.Fatalf("NewKeyFromString(%q) -> %s want %s", s, got.String(), want.String())
		}
	})
}
