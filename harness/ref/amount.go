package ref

import (
	"math/big"
	"strings"
)

// MaxAmount is the supply limit in the smallest unit (206438400 MASS * 10^8).
var MaxAmount = new(big.Int).Mul(big.NewInt(206438400), big.NewInt(100000000))

var e8 = big.NewInt(100000000)

// FormatAmount is the shortest plain decimal of v/10^8 (v >= 0).
func FormatAmount(v *big.Int) string {
	q, r := new(big.Int).QuoRem(v, e8, new(big.Int))
	s := q.String()
	if r.Sign() == 0 {
		return s
	}
	f := r.String()
	f = strings.Repeat("0", 8-len(f)) + f
	f = strings.TrimRight(f, "0")
	return s + "." + f
}

// AmountClass classifies a string per the property statement.
type AmountClass int

const (
	AmountValid     AmountClass = iota // unsigned plain decimal numeral, <=8 significant fractional digits, <= max
	AmountInvalid                      // everything else
	AmountUnderspec                    // numerals the statement does not pin down: no digit at all ("" and ".")
)

// ParseAmount: a numeral is digits [ '.' digits ] where at least one of the two
// digit groups is non-empty (the repository's own table accepts "5." and ".5").
// Returns the exact value*10^8 for valid numerals.
func ParseAmount(s string) (*big.Int, AmountClass) {
	intPart, frac := s, ""
	dots := strings.Count(s, ".")
	if dots > 1 {
		return nil, AmountInvalid
	}
	if dots == 1 {
		i := strings.IndexByte(s, '.')
		intPart, frac = s[:i], s[i+1:]
	}
	for _, c := range []byte(intPart + frac) {
		if c < '0' || c > '9' {
			return nil, AmountInvalid
		}
	}
	if intPart == "" && frac == "" {
		return nil, AmountUnderspec
	}
	frac = strings.TrimRight(frac, "0")
	if len(frac) > 8 {
		return nil, AmountInvalid
	}
	frac += strings.Repeat("0", 8-len(frac))
	iv := new(big.Int)
	if intPart != "" {
		iv.SetString(intPart, 10)
	}
	fv := new(big.Int)
	fv.SetString(frac, 10)
	iv.Mul(iv, e8)
	iv.Add(iv, fv)
	if iv.Cmp(MaxAmount) > 0 {
		return nil, AmountInvalid
	}
	return iv, AmountValid
}

func selfTestAmount() error { return nil }
