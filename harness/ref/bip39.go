// Package ref holds reference implementations written from the specification
// texts (BIP-39, BIP-32, decimal amounts). They never call the code under
// test and are validated against published vectors by SelfTest().
package ref

import (
	"crypto/hmac"
	"crypto/sha256"
	"crypto/sha512"
	"encoding/binary"
	"encoding/hex"
	"errors"
	"fmt"
	"strings"
)

var wordIndex map[string]int

func init() {
	sum := sha256.Sum256([]byte(strings.Join(English, "\n") + "\n"))
	if hex.EncodeToString(sum[:]) != "2f5eed53a4727b4bf8880d8f3f199efc90e58503646d9ff8eff3a2ed3b24dbda" {
		panic("ref: embedded BIP-39 word list corrupted")
	}
	wordIndex = make(map[string]int, 2048)
	for i, w := range English {
		wordIndex[w] = i
	}
}

// Bip39Encode returns the word list for entropy (bit-level, no big integers).
func Bip39Encode(entropy []byte) ([]string, error) {
	n := len(entropy)
	if n < 16 || n > 32 || n%4 != 0 {
		return nil, errors.New("ref: illegal entropy size")
	}
	h := sha256.Sum256(entropy)
	bits := make([]byte, 0, n*8+n/4)
	for _, b := range entropy {
		for i := 7; i >= 0; i-- {
			bits = append(bits, (b>>uint(i))&1)
		}
	}
	for i := 0; i < n/4; i++ {
		bits = append(bits, (h[i/8]>>uint(7-i%8))&1)
	}
	words := make([]string, 0, len(bits)/11)
	for i := 0; i < len(bits); i += 11 {
		v := 0
		for j := 0; j < 11; j++ {
			v = v<<1 | int(bits[i+j])
		}
		words = append(words, English[v])
	}
	return words, nil
}

var (
	ErrRefLen      = errors.New("ref: illegal word count")
	ErrRefWord     = errors.New("ref: word not in list")
	ErrRefChecksum = errors.New("ref: bad checksum")
)

// Bip39Decode returns the entropy of a word sequence or the reason it is invalid.
func Bip39Decode(words []string) ([]byte, error) {
	n := len(words)
	if n < 12 || n > 24 || n%3 != 0 {
		return nil, ErrRefLen
	}
	bits := make([]byte, 0, n*11)
	for _, w := range words {
		idx, ok := wordIndex[w]
		if !ok {
			return nil, ErrRefWord
		}
		for j := 10; j >= 0; j-- {
			bits = append(bits, byte(idx>>uint(j))&1)
		}
	}
	entBits := n * 11 * 32 / 33
	ent := make([]byte, entBits/8)
	for i := 0; i < entBits; i++ {
		ent[i/8] |= bits[i] << uint(7-i%8)
	}
	h := sha256.Sum256(ent)
	for i := 0; i < entBits/32; i++ {
		if bits[entBits+i] != (h[i/8]>>uint(7-i%8))&1 {
			return nil, ErrRefChecksum
		}
	}
	return ent, nil
}

// Bip39Seed is PBKDF2-HMAC-SHA512(mnemonic, "mnemonic"+pass, 2048, 64), written out.
func Bip39Seed(mnemonic, pass string) []byte {
	return pbkdf2Sha512([]byte(mnemonic), []byte("mnemonic"+pass), 2048, 64)
}

func pbkdf2Sha512(password, salt []byte, iter, keyLen int) []byte {
	var out []byte
	for block := uint32(1); len(out) < keyLen; block++ {
		mac := hmac.New(sha512.New, password)
		mac.Write(salt)
		var ib [4]byte
		binary.BigEndian.PutUint32(ib[:], block)
		mac.Write(ib[:])
		u := mac.Sum(nil)
		t := append([]byte(nil), u...)
		for i := 1; i < iter; i++ {
			mac = hmac.New(sha512.New, password)
			mac.Write(u)
			u = mac.Sum(nil)
			for j := range t {
				t[j] ^= u[j]
			}
		}
		out = append(out, t...)
	}
	return out[:keyLen]
}

type bip39Vec struct{ ent, mnemonic, seed string }

// Trezor vectors (passphrase "TREZOR") from the BIP-39 reference.
var bip39Vectors = []bip39Vec{
	{"00000000000000000000000000000000",
		"abandon abandon abandon abandon abandon abandon abandon abandon abandon abandon abandon about",
		"c55257c360c07c72029aebc1b53c05ed0362ada38ead3e3e9efa3708e53495531f09a6987599d18264c1e1c92f2cf141630c7a3c4ab7c81b2f001698e7463b04"},
	{"7f7f7f7f7f7f7f7f7f7f7f7f7f7f7f7f",
		"legal winner thank year wave sausage worth useful legal winner thank yellow",
		"2e8905819b8723fe2c1d161860e5ee1830318dbf49a83bd451cfb8440c28bd6fa457fe1296106559a3c80937a1c1069be3a3a5bd381ee6260e8d9739fce1f607"},
	{"80808080808080808080808080808080",
		"letter advice cage absurd amount doctor acoustic avoid letter advice cage above",
		"d71de856f81a8acc65e6fc851a38d4d7ec216fd0796d0a6827a3ad6ed5511a30fa280f12eb2e47ed2ac03b5c462a0358d18d69fe4f985ec81778c1b370b652a8"},
	{"ffffffffffffffffffffffffffffffff",
		"zoo zoo zoo zoo zoo zoo zoo zoo zoo zoo zoo wrong",
		"ac27495480225222079d7be181583751e86f571027b0497b5b5d11218e0a8a13332572917f0f8e5a589620c6f15b11c61dee327651a14c34e18231052e48c069"},
	{"000000000000000000000000000000000000000000000000",
		"abandon abandon abandon abandon abandon abandon abandon abandon abandon abandon abandon abandon abandon abandon abandon abandon abandon agent",
		"035895f2f481b1b0f01fcf8c289c794660b289981a78f8106447707fdd9666ca06da5a9a565181599b79f53b844d8a71dd9f439c52a3d7b3e8a79c906ac845fa"},
	{"0000000000000000000000000000000000000000000000000000000000000000",
		"abandon abandon abandon abandon abandon abandon abandon abandon abandon abandon abandon abandon abandon abandon abandon abandon abandon abandon abandon abandon abandon abandon abandon art",
		"bda85446c68413707090a52022edd26a1c9462295029f2e60cd7c4f2bbd3097170af7a4d73245cafa9c3cca8d561a7c3de6f5d4a10be8ed2a5e608d68f92fcc8"},
	{"ffffffffffffffffffffffffffffffffffffffffffffffffffffffffffffffff",
		"zoo zoo zoo zoo zoo zoo zoo zoo zoo zoo zoo zoo zoo zoo zoo zoo zoo zoo zoo zoo zoo zoo zoo vote",
		"dd48c104698c30cfe2b6142103248622fb7bb0ff692eebb00089b32d22484e1613912f0a5b694407be899ffd31ed3992c456cdf60f5d4564b8ba3f05a69890ad"},
}

// Bip39Vectors exposes the published vectors to checks (entropy hex, mnemonic, seed hex with passphrase TREZOR).
func Bip39Vectors() [][3]string {
	out := make([][3]string, len(bip39Vectors))
	for i, v := range bip39Vectors {
		out[i] = [3]string{v.ent, v.mnemonic, v.seed}
	}
	return out
}

func selfTestBip39() error {
	for _, v := range bip39Vectors {
		ent, _ := hex.DecodeString(v.ent)
		w, err := Bip39Encode(ent)
		if err != nil || strings.Join(w, " ") != v.mnemonic {
			return fmt.Errorf("ref bip39 encode vector %s: got %q", v.ent, strings.Join(w, " "))
		}
		back, err := Bip39Decode(strings.Fields(v.mnemonic))
		if err != nil || hex.EncodeToString(back) != v.ent {
			return fmt.Errorf("ref bip39 decode vector %s", v.ent)
		}
		if s := hex.EncodeToString(Bip39Seed(v.mnemonic, "TREZOR")); s != v.seed {
			return fmt.Errorf("ref bip39 seed vector %s: got %s", v.ent, s)
		}
	}
	return nil
}
