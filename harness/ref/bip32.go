package ref

import (
	"bytes"
	"crypto/hmac"
	"crypto/sha256"
	"crypto/sha512"
	"encoding/binary"
	"encoding/hex"
	"errors"
	"fmt"
	"math/big"

	"github.com/btcsuite/btcd/btcec"
	"golang.org/x/crypto/ripemd160"
)

// XKey is a BIP-32 extended key with fixed-width fields.
type XKey struct {
	Version   [4]byte
	Depth     byte
	ParentFP  [4]byte
	ChildNum  uint32
	ChainCode [32]byte
	Priv      bool
	K         [32]byte // private scalar, big-endian, always 32 bytes (when Priv)
	P         [33]byte // compressed public key (always set)
}

var (
	XprvVer = [4]byte{0x04, 0x88, 0xad, 0xe4}
	XpubVer = [4]byte{0x04, 0x88, 0xb2, 0x1e}

	ErrXInvalidChild = errors.New("ref: invalid child")
	ErrXHardPub      = errors.New("ref: hardened from public")
	ErrXSeed         = errors.New("ref: unusable seed")
)

var curveN = btcec.S256().N

func ser32(x *big.Int) (out [32]byte) {
	b := x.Bytes()
	copy(out[32-len(b):], b)
	return
}

func pubOf(k [32]byte) (out [33]byte) {
	x, y := btcec.S256().ScalarBaseMult(k[:])
	pk := btcec.PublicKey{Curve: btcec.S256(), X: x, Y: y}
	copy(out[:], pk.SerializeCompressed())
	return
}

func hash160(b []byte) []byte {
	s := sha256.Sum256(b)
	r := ripemd160.New()
	r.Write(s[:])
	return r.Sum(nil)
}

// XMaster derives the master key from a seed.
func XMaster(seed []byte) (*XKey, error) {
	if len(seed) < 16 || len(seed) > 64 {
		return nil, errors.New("ref: seed length")
	}
	mac := hmac.New(sha512.New, []byte("Bitcoin seed"))
	mac.Write(seed)
	I := mac.Sum(nil)
	il := new(big.Int).SetBytes(I[:32])
	if il.Sign() == 0 || il.Cmp(curveN) >= 0 {
		return nil, ErrXSeed
	}
	k := &XKey{Version: XprvVer, Priv: true}
	copy(k.K[:], I[:32])
	copy(k.ChainCode[:], I[32:])
	k.P = pubOf(k.K)
	return k, nil
}

// Child derives child i (CKDpriv for private parents, CKDpub for public ones).
func (k *XKey) Child(i uint32) (*XKey, error) {
	if k.Depth == 255 {
		return nil, errors.New("ref: depth")
	}
	hard := i >= 0x80000000
	if hard && !k.Priv {
		return nil, ErrXHardPub
	}
	data := make([]byte, 0, 37)
	if hard {
		data = append(data, 0)
		data = append(data, k.K[:]...)
	} else {
		data = append(data, k.P[:]...)
	}
	var ib [4]byte
	binary.BigEndian.PutUint32(ib[:], i)
	data = append(data, ib[:]...)
	mac := hmac.New(sha512.New, k.ChainCode[:])
	mac.Write(data)
	I := mac.Sum(nil)
	il := new(big.Int).SetBytes(I[:32])
	if il.Cmp(curveN) >= 0 {
		return nil, ErrXInvalidChild
	}
	c := &XKey{Version: k.Version, Depth: k.Depth + 1, ChildNum: i, Priv: k.Priv}
	copy(c.ChainCode[:], I[32:])
	copy(c.ParentFP[:], hash160(k.P[:])[:4])
	if k.Priv {
		ki := new(big.Int).Add(il, new(big.Int).SetBytes(k.K[:]))
		ki.Mod(ki, curveN)
		if ki.Sign() == 0 {
			return nil, ErrXInvalidChild
		}
		c.K = ser32(ki)
		c.P = pubOf(c.K)
	} else {
		ilx, ily := btcec.S256().ScalarBaseMult(I[:32])
		pp, err := btcec.ParsePubKey(k.P[:], btcec.S256())
		if err != nil {
			return nil, err
		}
		cx, cy := btcec.S256().Add(ilx, ily, pp.X, pp.Y)
		if cx.Sign() == 0 && cy.Sign() == 0 {
			return nil, ErrXInvalidChild
		}
		pk := btcec.PublicKey{Curve: btcec.S256(), X: cx, Y: cy}
		copy(c.P[:], pk.SerializeCompressed())
	}
	return c, nil
}

// Neuter returns the public counterpart.
func (k *XKey) Neuter() *XKey {
	c := *k
	if k.Priv {
		c.Priv = false
		c.K = [32]byte{}
		c.Version = XpubVer
	}
	return &c
}

// Serialize returns the 78-byte payload.
func (k *XKey) Serialize() []byte {
	b := make([]byte, 0, 78)
	b = append(b, k.Version[:]...)
	b = append(b, k.Depth)
	b = append(b, k.ParentFP[:]...)
	var cn [4]byte
	binary.BigEndian.PutUint32(cn[:], k.ChildNum)
	b = append(b, cn[:]...)
	b = append(b, k.ChainCode[:]...)
	if k.Priv {
		b = append(b, 0)
		b = append(b, k.K[:]...)
	} else {
		b = append(b, k.P[:]...)
	}
	return b
}

// String is the base58check form.
func (k *XKey) String() string { return Base58Check(k.Serialize()) }

const b58 = "123456789ABCDEFGHJKLMNPQRSTUVWXYZabcdefghijkmnopqrstuvwxyz"

// Base58Check encodes payload || first 4 bytes of double-SHA256.
func Base58Check(payload []byte) string {
	h1 := sha256.Sum256(payload)
	h2 := sha256.Sum256(h1[:])
	return Base58(append(append([]byte(nil), payload...), h2[:4]...))
}

// Base58 encodes bytes in the Bitcoin alphabet.
func Base58(in []byte) string {
	x := new(big.Int).SetBytes(in)
	var out []byte
	m := new(big.Int)
	base := big.NewInt(58)
	for x.Sign() > 0 {
		x.DivMod(x, base, m)
		out = append(out, b58[m.Int64()])
	}
	for _, c := range in {
		if c != 0 {
			break
		}
		out = append(out, b58[0])
	}
	for i, j := 0, len(out)-1; i < j; i, j = i+1, j-1 {
		out[i], out[j] = out[j], out[i]
	}
	return string(out)
}

// Base58Decode decodes (nil on a character outside the alphabet).
func Base58Decode(s string) []byte {
	x := new(big.Int)
	for _, c := range []byte(s) {
		idx := bytes.IndexByte([]byte(b58), c)
		if idx < 0 {
			return nil
		}
		x.Mul(x, big.NewInt(58))
		x.Add(x, big.NewInt(int64(idx)))
	}
	out := x.Bytes()
	for _, c := range []byte(s) {
		if c != b58[0] {
			break
		}
		out = append([]byte{0}, out...)
	}
	return out
}

// XParse parses a serialised key per BIP-32: 82 bytes, checksum, private keys
// in [1,n-1] with a 0x00 lead byte, public keys on the curve with 02/03 lead.
func XParse(s string) (*XKey, error) {
	raw := Base58Decode(s)
	if len(raw) != 82 {
		return nil, errors.New("ref: length")
	}
	h1 := sha256.Sum256(raw[:78])
	h2 := sha256.Sum256(h1[:])
	if !bytes.Equal(h2[:4], raw[78:]) {
		return nil, errors.New("ref: checksum")
	}
	k := &XKey{}
	copy(k.Version[:], raw[:4])
	k.Depth = raw[4]
	copy(k.ParentFP[:], raw[5:9])
	k.ChildNum = binary.BigEndian.Uint32(raw[9:13])
	copy(k.ChainCode[:], raw[13:45])
	kd := raw[45:78]
	switch kd[0] {
	case 0:
		x := new(big.Int).SetBytes(kd[1:])
		if x.Sign() == 0 || x.Cmp(curveN) >= 0 {
			return nil, errors.New("ref: private key out of range")
		}
		k.Priv = true
		copy(k.K[:], kd[1:])
		k.P = pubOf(k.K)
	case 2, 3:
		if _, err := btcec.ParsePubKey(kd, btcec.S256()); err != nil {
			return nil, errors.New("ref: public key not on curve")
		}
		copy(k.P[:], kd)
	default:
		return nil, errors.New("ref: bad key prefix")
	}
	return k, nil
}

type bip32Vec struct {
	seed string
	path []uint32
	pub  string
	prv  string
}

const H = 0x80000000

// Published BIP-32 test vectors 1-4 (subset) used to validate this reference.
var bip32Vectors = []bip32Vec{
	{"000102030405060708090a0b0c0d0e0f", nil,
		"xpub661MyMwAqRbcFtXgS5sYJABqqG9YLmC4Q1Rdap9gSE8NqtwybGhePY2gZ29ESFjqJoCu1Rupje8YtGqsefD265TMg7usUDFdp6W1EGMcet8",
		"xprv9s21ZrQH143K3QTDL4LXw2F7HEK3wJUD2nW2nRk4stbPy6cq3jPPqjiChkVvvNKmPGJxWUtg6LnF5kejMRNNU3TGtRBeJgk33yuGBxrMPHi"},
	{"000102030405060708090a0b0c0d0e0f", []uint32{H},
		"xpub68Gmy5EdvgibQVfPdqkBBCHxA5htiqg55crXYuXoQRKfDBFA1WEjWgP6LHhwBZeNK1VTsfTFUHCdrfp1bgwQ9xv5ski8PX9rL2dZXvgGDnw",
		"xprv9uHRZZhk6KAJC1avXpDAp4MDc3sQKNxDiPvvkX8Br5ngLNv1TxvUxt4cV1rGL5hj6KCesnDYUhd7oWgT11eZG7XnxHrnYeSvkzY7d2bhkJ7"},
	{"000102030405060708090a0b0c0d0e0f", []uint32{H, 1},
		"xpub6ASuArnXKPbfEwhqN6e3mwBcDTgzisQN1wXN9BJcM47sSikHjJf3UFHKkNAWbWMiGj7Wf5uMash7SyYq527Hqck2AxYysAA7xmALppuCkwQ",
		"xprv9wTYmMFdV23N2TdNG573QoEsfRrWKQgWeibmLntzniatZvR9BmLnvSxqu53Kw1UmYPxLgboyZQaXwTCg8MSY3H2EU4pWcQDnRnrVA1xe8fs"},
	{"000102030405060708090a0b0c0d0e0f", []uint32{H, 1, H + 2},
		"xpub6D4BDPcP2GT577Vvch3R8wDkScZWzQzMMUm3PWbmWvVJrZwQY4VUNgqFJPMM3No2dFDFGTsxxpG5uJh7n7epu4trkrX7x7DogT5Uv6fcLW5",
		"xprv9z4pot5VBttmtdRTWfWQmoH1taj2axGVzFqSb8C9xaxKymcFzXBDptWmT7FwuEzG3ryjH4ktypQSAewRiNMjANTtpgP4mLTj34bhnZX7UiM"},
	{"000102030405060708090a0b0c0d0e0f", []uint32{H, 1, H + 2, 2},
		"xpub6FHa3pjLCk84BayeJxFW2SP4XRrFd1JYnxeLeU8EqN3vDfZmbqBqaGJAyiLjTAwm6ZLRQUMv1ZACTj37sR62cfN7fe5JnJ7dh8zL4fiyLHV",
		"xprvA2JDeKCSNNZky6uBCviVfJSKyQ1mDYahRjijr5idH2WwLsEd4Hsb2Tyh8RfQMuPh7f7RtyzTtdrbdqqsunu5Mm3wDvUAKRHSC34sJ7in334"},
	// vector 3: leading zeros retained
	{"4b381541583be4423346c643850da4b320e46a87ae3d2a4e6da11eba819cd4acba45d239319ac14f863b8d5ab5a0d0c64d2e8a1e7d1457df2e5a3c51c73235be", nil,
		"xpub661MyMwAqRbcEZVB4dScxMAdx6d4nFc9nvyvH3v4gJL378CSRZiYmhRoP7mBy6gSPSCYk6SzXPTf3ND1cZAceL7SfJ1Z3GC8vBgp2epUt13",
		"xprv9s21ZrQH143K25QhxbucbDDuQ4naNntJRi4KUfWT7xo4EKsHt2QJDu7KXp1A3u7Bi1j8ph3EGsZ9Xvz9dGuVrtHHs7pXeTzjuxBrCmmhgC6"},
	{"4b381541583be4423346c643850da4b320e46a87ae3d2a4e6da11eba819cd4acba45d239319ac14f863b8d5ab5a0d0c64d2e8a1e7d1457df2e5a3c51c73235be", []uint32{H},
		"xpub68NZiKmJWnxxS6aaHmn81bvJeTESw724CRDs6HbuccFQN9Ku14VQrADWgqbhhTHBaohPX4CjNLf9fq9MYo6oDaPPLPxSb7gwQN3ih19Zm4Y",
		"xprv9uPDJpEQgRQfDcW7BkF7eTya6RPxXeJCqCJGHuCJ4GiRVLzkTXBAJMu2qaMWPrS7AANYqdq6vcBcBUdJCVVFceUvJFjaPdGZ2y9WACViL4L"},
	// vector 4: leading zeros in a parent private key (bitpay/bitcore-lib#47, iancoleman/bip39#58)
	{"3ddd5602285899a946114506157c7997e5444528f3003f6134712147db19b678", nil,
		"xpub661MyMwAqRbcGczjuMoRm6dXaLDEhW1u34gKenbeYqAix21mdUKJyuyu5F1rzYGVxyL6tmgBUAEPrEz92mBXjByMRiJdba9wpnN37RLLAXa",
		"xprv9s21ZrQH143K48vGoLGRPxgo2JNkJ3J3fqkirQC2zVdk5Dgd5w14S7fRDyHH4dWNHUgkvsvNDCkvAwcSHNAQwhwgNMgZhLtQC63zxwhQmRv"},
	{"3ddd5602285899a946114506157c7997e5444528f3003f6134712147db19b678", []uint32{H},
		"xpub69AUMk3qDBi3uW1sXgjCmVjJ2G6WQoYSnNHyzkmdCHEhSZ4tBok37xfFEqHd2AddP56Tqp4o56AePAgCjYdvpW2PU2jbUPFKsav5ut6Ch1m",
		"xprv9vB7xEWwNp9kh1wQRfCCQMnZUEG21LpbR9NPCNN1dwhiZkjjeGRnaALmPXCX7SgjFTiCTT6bXes17boXtjq3xLpcDjzEuGLQBM5ohqkao9G"},
	{"3ddd5602285899a946114506157c7997e5444528f3003f6134712147db19b678", []uint32{H, H + 1},
		"xpub6BJA1jSqiukeaesWfxe6sNK9CCGaujFFSJLomWHprUL9DePQ4JDkM5d88n49sMGJxrhpjazuXYWdMf17C9T5XnxkopaeS7jGk1GyyVziaMt",
		"xprv9xJocDuwtYCMNAo3Zw76WENQeAS6WGXQ55RCy7tDJ8oALr4FWkuVoHJeHVAcAqiZLE7Je3vZJHxspZdFHfnBEjHqU5hG1Jaj32dVoS6XLT1"},
}

// Bip32Vector is an exported view of one published vector.
type Bip32Vector struct {
	SeedHex string
	Path    []uint32
	Pub     string
	Prv     string
}

// Bip32Vectors returns the published vectors.
func Bip32Vectors() []Bip32Vector {
	out := make([]Bip32Vector, len(bip32Vectors))
	for i, v := range bip32Vectors {
		out[i] = Bip32Vector{v.seed, v.path, v.pub, v.prv}
	}
	return out
}

func selfTestBip32() error {
	for _, v := range bip32Vectors {
		seed, _ := hex.DecodeString(v.seed)
		k, err := XMaster(seed)
		if err != nil {
			return err
		}
		for _, i := range v.path {
			if k, err = k.Child(i); err != nil {
				return err
			}
		}
		if k.String() != v.prv {
			return fmt.Errorf("ref bip32 vector %s %v prv: got %s", v.seed[:8], v.path, k.String())
		}
		if k.Neuter().String() != v.pub {
			return fmt.Errorf("ref bip32 vector %s %v pub: got %s", v.seed[:8], v.path, k.Neuter().String())
		}
		p, err := XParse(v.prv)
		if err != nil || p.String() != v.prv {
			return fmt.Errorf("ref bip32 parse %v", err)
		}
	}
	// invalid keys of test vector 5 (subset)
	bad := []string{
		"xpub661MyMwAqRbcEYS8w7XLSVeEsBXy79zSzH1J8vCdxAZningWLdN3zgtU6LBpB85b3D2yc8sfvZU521AAwdZafEz7mnzBBsz4wKY5fTtTQBm", // pubkey version / prvkey mismatch
		"xprv9s21ZrQH143K24Mfq5zL5MhWK9hUhhGbd45hLXo2Pq2oqzMMo63oStZzFGTQQD3dC4H2D5GBj7vWvSQaaBv5cxi9gafk7NF3pnBju6dwKvH", // prvkey version / pubkey mismatch
		"xprv9s21ZrQH143K24Mfq5zL5MhWK9hUhhGbd45hLXo2Pq2oqzMMo63oStZzFAzHGBP2UuGCqWLTAPLcMtD9y5gkZ6Eq3Rjuahrv17fEQ3Qen6J", // private key n (not in 1..n-1)
		"xprv9s21ZrQH143K3QTDL4LXw2F7HEK3wJUD2nW2nRk4stbPy6cq3jPPqjiChkVvvNKmPGJxWUtg6LnF5kejMRNNU3TGtRBeJgk33yuGBxrMPHL", // invalid checksum
	}
	for i, s := range bad {
		if i < 2 {
			continue // these two need the version/key-type cross-check; tested only if decodable
		}
		if _, err := XParse(s); err == nil {
			return fmt.Errorf("ref bip32: invalid key %d accepted", i)
		}
	}
	return nil
}
