package ref

import "sync"

var (
	stOnce sync.Once
	stErr  error
)

// SelfTest validates every reference against published vectors (once per process).
func SelfTest() error {
	stOnce.Do(func() {
		for _, f := range []func() error{selfTestBip39, selfTestBip32, selfTestAmount} {
			if err := f(); err != nil {
				stErr = err
				return
			}
		}
	})
	return stErr
}
