// Package xdb is an interposed mwdb.DB: it wraps the real LevelDB-backed wallet database and can
// count/log calls, record every byte written, fail the k-th call without side effect, drop
// everything after the k-th commit (crash simulation), and pause a goroutine at its i-th read.
package xdb

import (
	"errors"
	"fmt"
	"runtime"
	"strings"
	"sync"
	"sync/atomic"

	mwdb "massnet.org/mass-wallet/masswallet/db"
)

// ErrInjected is the storage error returned by an injected fault.
var ErrInjected = errors.New("xdb: injected storage fault")

// ErrFrozen is returned by commits after the simulated crash point.
var ErrFrozen = errors.New("xdb: database frozen (simulated crash)")

// Ctl controls and observes one wrapped database (shared across reopen of the same directory).
type Ctl struct {
	mu sync.Mutex
	// counters
	calls   int64 // every interposed call (begin, get, put, delete, iterator step, commit ...)
	commits int64 // successful write commits
	// fault injection: fail call number FailAt (1-based) and the following FailRepeat-1 calls
	FailAt     int64
	FailRepeat int64
	FailKinds  map[string]bool            // nil = any kind
	FailFilter func() bool                // if set, only calls for which it reports true are failed
	OnCall     func(n int64, kind string) // called (outside the lock) for every interposed call
	KeepStacks bool                       // record where each failed call came from (diagnostics in failure reports)
	Stacks     []string
	Injected   []string // kinds of the calls that were failed
	// crash simulation: after FreezeAfter commits every later commit is dropped
	FreezeAfter int64
	frozen      int32
	// recording
	Record bool
	Keys   [][]byte
	Values [][]byte
	// read pause: the goroutine whose id is PauseGID blocks before its PauseAtRead-th read
	PauseAtRead int64
	PauseFilter func() bool // reports whether the calling goroutine is the one to pause
	reads       int64
	Paused      chan struct{} // signalled when the target goroutine is parked
	Resume      chan struct{} // closed/sent to let it continue
	pausedOnce  bool
	// per-kind counters
	Kinds map[string]int64
	// trace of (kind) per call index, for stratified sampling
	Trace     []string
	KeepTrace bool
}

// NewCtl returns a pass-through controller.
func NewCtl() *Ctl {
	return &Ctl{Kinds: map[string]int64{}, Paused: make(chan struct{}, 1), Resume: make(chan struct{})}
}

// Calls returns the number of interposed calls so far.
func (c *Ctl) Calls() int64 { return atomic.LoadInt64(&c.calls) }

// Commits returns the number of successful commits so far.
func (c *Ctl) Commits() int64 { return atomic.LoadInt64(&c.commits) }

// Frozen reports whether the crash point has been reached.
func (c *Ctl) Frozen() bool { return atomic.LoadInt32(&c.frozen) == 1 }

// SetFail arms fault injection from another goroutine than the one making database calls (the plain
// fields may only be set while no call is in flight).
func (c *Ctl) SetFail(at, repeat int64, kinds map[string]bool) {
	c.mu.Lock()
	c.FailAt, c.FailRepeat, c.FailKinds = at, repeat, kinds
	c.mu.Unlock()
}

// InjectedCount returns how many calls were failed so far.
func (c *Ctl) InjectedCount() int {
	c.mu.Lock()
	defer c.mu.Unlock()
	return len(c.Injected)
}

// Unfreeze ends the simulated crash (the next process opens the database normally).
func (c *Ctl) Unfreeze() {
	c.mu.Lock()
	c.FreezeAfter = 0
	c.mu.Unlock()
	atomic.StoreInt32(&c.frozen, 0)
}

// Reads returns the number of read calls seen by the pause filter's goroutine.
func (c *Ctl) Reads() int64 { return atomic.LoadInt64(&c.reads) }

// step registers one call and reports whether it must fail.
func (c *Ctl) step(kind string) bool {
	n := atomic.AddInt64(&c.calls, 1)
	c.mu.Lock()
	c.Kinds[kind]++
	if c.KeepTrace {
		c.Trace = append(c.Trace, kind)
	}
	fail := false
	if c.FailAt > 0 && n >= c.FailAt && n < c.FailAt+maxI(c.FailRepeat, 1) {
		if (c.FailKinds == nil || c.FailKinds[kind]) && (c.FailFilter == nil || c.FailFilter()) {
			fail = true
			c.Injected = append(c.Injected, kind)
			if c.KeepStacks {
				c.Stacks = append(c.Stacks, callers())
			}
		}
	}
	c.mu.Unlock()
	if c.OnCall != nil {
		c.OnCall(n, kind)
	}
	return fail
}

// callers renders the wallet-side frames above the interposer.
func callers() string {
	pc := make([]uintptr, 24)
	n := runtime.Callers(3, pc)
	fr := runtime.CallersFrames(pc[:n])
	var out []string
	for {
		f, more := fr.Next()
		if strings.Contains(f.Function, "mass-wallet/") {
			fn := f.Function[strings.LastIndex(f.Function, "/")+1:]
			out = append(out, fmt.Sprintf("%s:%d", fn, f.Line))
		}
		if !more || len(out) >= 8 {
			break
		}
	}
	return strings.Join(out, " < ")
}

func maxI(a, b int64) int64 {
	if a > b {
		return a
	}
	return b
}

// read registers a read call for the pause mechanism.
func (c *Ctl) read() {
	if c.PauseAtRead <= 0 || c.PauseFilter == nil || !c.PauseFilter() {
		return
	}
	n := atomic.AddInt64(&c.reads, 1)
	if n == c.PauseAtRead {
		c.mu.Lock()
		first := !c.pausedOnce
		c.pausedOnce = true
		c.mu.Unlock()
		if first {
			c.Paused <- struct{}{}
			<-c.Resume
		}
	}
}

// ArmPause parks the goroutine selected by filter before its i-th read (counted from now).
func (c *Ctl) ArmPause(i int64, filter func() bool) {
	c.mu.Lock()
	c.pausedOnce = false
	c.mu.Unlock()
	atomic.StoreInt64(&c.reads, 0)
	c.PauseFilter = filter
	c.PauseAtRead = i
}

// DisarmPause switches the pause mechanism off.
func (c *Ctl) DisarmPause() {
	c.PauseAtRead = 0
	c.PauseFilter = nil
}

// CountReadsOnly makes the filter count reads without ever pausing (dry run).
func (c *Ctl) CountReadsOnly(filter func() bool) {
	atomic.StoreInt64(&c.reads, 0)
	c.PauseFilter = filter
	c.PauseAtRead = 1 << 60
}

func (c *Ctl) record(k, v []byte) {
	if !c.Record {
		return
	}
	c.mu.Lock()
	c.Keys = append(c.Keys, append([]byte(nil), k...))
	c.Values = append(c.Values, append([]byte(nil), v...))
	c.mu.Unlock()
}

// DB is the wrapper.
type DB struct {
	Inner mwdb.DB
	C     *Ctl
}

// Wrap wraps inner with controller c.
func Wrap(inner mwdb.DB, c *Ctl) *DB { return &DB{Inner: inner, C: c} }

func (d *DB) Close() error { return d.Inner.Close() }

func (d *DB) BeginTx() (mwdb.DBTransaction, error) {
	if d.C.step("begin") {
		return nil, ErrInjected
	}
	tx, err := d.Inner.BeginTx()
	if err != nil {
		return nil, err
	}
	return &wtx{in: tx, c: d.C}, nil
}

func (d *DB) BeginReadTx() (mwdb.ReadTransaction, error) {
	if d.C.step("beginread") {
		return nil, ErrInjected
	}
	tx, err := d.Inner.BeginReadTx()
	if err != nil {
		return nil, err
	}
	// a pause point of its own: the snapshot exists, nothing has been read from it yet (whatever the
	// caller takes from memory after this moment may belong to a later state than the snapshot)
	d.C.read()
	return &rtx{in: tx, c: d.C}, nil
}

type wtx struct {
	in mwdb.DBTransaction
	c  *Ctl
}

func (t *wtx) Commit() error {
	if t.c.Frozen() {
		t.in.Rollback()
		return ErrFrozen
	}
	if t.c.step("commit") {
		t.in.Rollback()
		return ErrInjected
	}
	err := t.in.Commit()
	if err == nil {
		n := atomic.AddInt64(&t.c.commits, 1)
		if t.c.FreezeAfter > 0 && n >= t.c.FreezeAfter {
			atomic.StoreInt32(&t.c.frozen, 1)
		}
	}
	return err
}
func (t *wtx) Rollback() error                     { return t.in.Rollback() }
func (t *wtx) TopLevelBucket(n string) mwdb.Bucket { return wrapB(t.in.TopLevelBucket(n), t.c) }
func (t *wtx) BucketNames() ([]string, error)      { t.c.read(); return t.in.BucketNames() }
func (t *wtx) FetchBucket(m mwdb.BucketMeta) mwdb.Bucket {
	return wrapB(t.in.FetchBucket(m), t.c)
}
func (t *wtx) CreateTopLevelBucket(n string) (mwdb.Bucket, error) {
	if t.c.step("createbucket") {
		return nil, ErrInjected
	}
	b, err := t.in.CreateTopLevelBucket(n)
	if err != nil {
		return nil, err
	}
	return wrapB(b, t.c), nil
}
func (t *wtx) DeleteTopLevelBucket(n string) error { return t.in.DeleteTopLevelBucket(n) }

type rtx struct {
	in mwdb.ReadTransaction
	c  *Ctl
}

func (t *rtx) TopLevelBucket(n string) mwdb.Bucket { return wrapB(t.in.TopLevelBucket(n), t.c) }
func (t *rtx) FetchBucket(m mwdb.BucketMeta) mwdb.Bucket {
	return wrapB(t.in.FetchBucket(m), t.c)
}
func (t *rtx) BucketNames() ([]string, error) { t.c.read(); return t.in.BucketNames() }
func (t *rtx) Rollback() error                { return t.in.Rollback() }

type wbucket struct {
	in mwdb.Bucket
	c  *Ctl
}

func wrapB(b mwdb.Bucket, c *Ctl) mwdb.Bucket {
	if b == nil {
		return nil
	}
	return &wbucket{in: b, c: c}
}

func (b *wbucket) NewBucket(n string) (mwdb.Bucket, error) {
	if b.c.step("createbucket") {
		return nil, ErrInjected
	}
	x, err := b.in.NewBucket(n)
	if err != nil {
		return nil, err
	}
	return wrapB(x, b.c), nil
}
func (b *wbucket) Bucket(n string) mwdb.Bucket    { return wrapB(b.in.Bucket(n), b.c) }
func (b *wbucket) BucketNames() ([]string, error) { b.c.read(); return b.in.BucketNames() }
func (b *wbucket) DeleteBucket(n string) error {
	if b.c.step("deletebucket") {
		return ErrInjected
	}
	return b.in.DeleteBucket(n)
}
func (b *wbucket) Put(k, v []byte) error {
	if b.c.step("put") {
		return ErrInjected
	}
	b.c.record(k, v)
	return b.in.Put(k, v)
}
func (b *wbucket) Delete(k []byte) error {
	if b.c.step("delete") {
		return ErrInjected
	}
	return b.in.Delete(k)
}
func (b *wbucket) Get(k []byte) ([]byte, error) {
	b.c.read()
	if b.c.step("get") {
		return nil, ErrInjected
	}
	return b.in.Get(k)
}
func (b *wbucket) Clear() error {
	if b.c.step("clear") {
		return ErrInjected
	}
	return b.in.Clear()
}
func (b *wbucket) GetByPrefix(p []byte) ([]*mwdb.Entry, error) {
	b.c.read()
	if b.c.step("getprefix") {
		return nil, ErrInjected
	}
	return b.in.GetByPrefix(p)
}
func (b *wbucket) GetBucketMeta() mwdb.BucketMeta { return b.in.GetBucketMeta() }
func (b *wbucket) NewIterator(r *mwdb.Range) mwdb.Iterator {
	b.c.read()
	fail := b.c.step("iterator")
	return &witer{in: b.in.NewIterator(r), c: b.c, failed: fail}
}

type witer struct {
	in     mwdb.Iterator
	c      *Ctl
	failed bool
}

func (i *witer) Release() { i.in.Release() }
func (i *witer) Error() error {
	if i.failed {
		return ErrInjected
	}
	return i.in.Error()
}
func (i *witer) Seek(k []byte) bool {
	if i.failed {
		return false
	}
	return i.in.Seek(k)
}
func (i *witer) Next() bool {
	if i.failed {
		return false // an iterator that hit a storage error yields nothing more; Error() reports it
	}
	i.c.read()
	return i.in.Next()
}
func (i *witer) Key() []byte   { return i.in.Key() }
func (i *witer) Value() []byte { return i.in.Value() }
