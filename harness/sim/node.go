// Package sim holds the simulated node (real mass-core chain DB + address index over
// in-memory storage) and the builders for blocks and transactions used by the checks.
package sim

import (
	"encoding/binary"
	"fmt"
	"os"
	"path/filepath"
	"reflect"
	"sync"
	"time"
	"unsafe"

	"github.com/massnetorg/mass-core/blockchain"
	"github.com/massnetorg/mass-core/blockchain/state"
	coreconfig "github.com/massnetorg/mass-core/config"
	"github.com/massnetorg/mass-core/database"
	"github.com/massnetorg/mass-core/database/ldb"
	dbstorage "github.com/massnetorg/mass-core/database/storage"
	"github.com/massnetorg/mass-core/massutil"
	"github.com/massnetorg/mass-core/netsync"
	"github.com/massnetorg/mass-core/trie/common"
	"github.com/massnetorg/mass-core/trie/rawdb"
	"github.com/massnetorg/mass-core/wire"
	"github.com/syndtr/goleveldb/leveldb"
	"github.com/syndtr/goleveldb/leveldb/iterator"
	"github.com/syndtr/goleveldb/leveldb/opt"
	"github.com/syndtr/goleveldb/leveldb/storage"
	"github.com/syndtr/goleveldb/leveldb/util"
	"massnet.org/mass-wallet/config"
)

// ---- in-memory storage for the real ChainDb (same shape as mass-core's memdb, but with a
// caller-chosen block-file directory) -------------------------------------------------------

type memStore struct{ db *leveldb.DB }
type memBatch struct{ b *leveldb.Batch }
type memIter struct{ iter iterator.Iterator }

func newMemStore() (*memStore, error) {
	mdb, err := leveldb.Open(storage.NewMemStorage(), &opt.Options{})
	if err != nil {
		return nil, err
	}
	return &memStore{db: mdb}, nil
}
func (l *memStore) Close() error { return l.db.Close() }
func (l *memStore) Get(key []byte) ([]byte, error) {
	v, err := l.db.Get(key, nil)
	if err == leveldb.ErrNotFound {
		return nil, dbstorage.ErrNotFound
	}
	return v, err
}
func (l *memStore) Put(key, value []byte) error {
	if len(key) == 0 {
		return dbstorage.ErrInvalidKey
	}
	return l.db.Put(key, value, nil)
}
func (l *memStore) Has(key []byte) (bool, error) {
	_, err := l.Get(key)
	if err == dbstorage.ErrNotFound {
		return false, nil
	}
	return err == nil, err
}
func (l *memStore) Delete(key []byte) error   { return l.db.Delete(key, nil) }
func (l *memStore) NewBatch() dbstorage.Batch { return &memBatch{b: new(leveldb.Batch)} }
func (l *memStore) Write(b dbstorage.Batch) error {
	lb, ok := b.(*memBatch)
	if !ok {
		return dbstorage.ErrInvalidBatch
	}
	return l.db.Write(lb.b, nil)
}
func (l *memStore) NewIterator(s *dbstorage.Range) dbstorage.Iterator {
	if s == nil {
		s = &dbstorage.Range{}
	}
	r := &util.Range{}
	if len(s.Start) > 0 {
		r.Start = s.Start
	}
	if len(s.Limit) > 0 {
		r.Limit = s.Limit
	}
	return &memIter{iter: l.db.NewIterator(r, nil)}
}
func (b *memBatch) Put(k, v []byte) error {
	if len(k) == 0 {
		return dbstorage.ErrInvalidKey
	}
	b.b.Put(k, v)
	return nil
}
func (b *memBatch) Delete(k []byte) error {
	if len(k) == 0 {
		return dbstorage.ErrInvalidKey
	}
	b.b.Delete(k)
	return nil
}
func (b *memBatch) Reset()             { b.b.Reset() }
func (b *memBatch) Release()           { b.b = nil }
func (it *memIter) Seek(k []byte) bool { return it.iter.Seek(k) }
func (it *memIter) Next() bool         { return it.iter.Next() }
func (it *memIter) Key() []byte        { return it.iter.Key() }
func (it *memIter) Value() []byte      { return it.iter.Value() }
func (it *memIter) Release()           { it.iter.Release() }
func (it *memIter) Error() error       { return it.iter.Error() }

// ---- process-wide node facade objects the wallet only touches lightly ----------------------

var (
	sharedOnce  sync.Once
	sharedChain *blockchain.Blockchain
	sharedSync  *netsync.SyncManager
	sharedPool  *blockchain.TxPool
	sharedErr   error
	sharedDir   string
)

// shared builds, once per process, a real Blockchain (over its own genesis-only DB), an empty
// real TxPool and a real SyncManager without sockets. The wallet reads only the best height,
// the listener registry, pool membership of outpoints and the best peer from them.
func shared() error {
	sharedOnce.Do(func() {
		base := os.Getenv("VERIF_SCRATCH")
		sharedDir, sharedErr = os.MkdirTemp(base, "simshared")
		if sharedErr != nil {
			return
		}
		st, err := newMemStore()
		if err != nil {
			sharedErr = err
			return
		}
		cdb, err := ldb.NewChainDb(filepath.Join(sharedDir, "blocks"), st)
		if err != nil {
			sharedErr = err
			return
		}
		sdb := state.NewDatabase(rawdb.NewMemoryDatabase())
		sharedChain, sharedErr = blockchain.NewBlockchain(&blockchain.Config{
			DB: cdb, StateBindingDb: sdb, ChainParams: &coreconfig.ChainParams, CachePath: filepath.Join(sharedDir, "cache"),
		})
		if sharedErr != nil {
			return
		}
		sharedPool = sharedChain.GetTxPool()
		cfg := config.NewDefCoreConfig()
		cfg.P2P.VaultMode = true
		cfg.P2P.ListenAddress = "tcp://127.0.0.1:0"
		cfg.Datastore.Dir = filepath.Join(sharedDir, "chaindata")
		os.MkdirAll(cfg.Datastore.Dir, 0700)
		sharedSync, sharedErr = netsync.NewSyncManager(cfg, sharedChain, sharedPool, make(chan *wire.Hash, 16))
	})
	return sharedErr
}

// Node is one simulated full node.
type Node struct {
	dir   string
	db    *ldb.ChainDb
	ai    *blockchain.AddrIndexer
	sdb   state.Database
	Chain []*massutil.Block // best chain, Chain[h] has height h
	roots map[wire.Hash]common.Hash
	// every transaction ever put into a block by this node, for the indexer's input lookups
	txs     map[wire.Hash]*massutil.Tx
	counter uint64
	mu      sync.Mutex
	closed  bool
}

// NewNode creates a node holding only the genesis block.
func NewNode() (*Node, error) {
	if err := shared(); err != nil {
		return nil, err
	}
	dir, err := os.MkdirTemp(os.Getenv("VERIF_SCRATCH"), "simnode")
	if err != nil {
		return nil, err
	}
	st, err := newMemStore()
	if err != nil {
		return nil, err
	}
	cdb, err := ldb.NewChainDb(filepath.Join(dir, "blocks"), st)
	if err != nil {
		return nil, err
	}
	gen := massutil.NewBlock(config.ChainParams.GenesisBlock)
	if err := cdb.InitByGenesisBlock(gen); err != nil {
		return nil, err
	}
	sdb := state.NewDatabase(rawdb.NewMemoryDatabase())
	ai, err := blockchain.NewAddrIndexer(cdb, sdb)
	if err != nil {
		return nil, err
	}
	n := &Node{dir: dir, db: cdb, ai: ai, sdb: sdb, Chain: []*massutil.Block{gen},
		roots: map[wire.Hash]common.Hash{*gen.Hash(): {}}, txs: map[wire.Hash]*massutil.Tx{}}
	for _, tx := range gen.Transactions() {
		n.txs[*tx.Hash()] = tx
	}
	n.publishHeight()
	return n, nil
}

// Close releases the node's resources and removes its block files.
func (n *Node) Close() {
	if n.closed {
		return
	}
	n.closed = true
	n.db.Close()
	os.RemoveAll(n.dir)
}

// DB is the chain database the wallet reads.
func (n *Node) DB() database.Db { return n.db }

// Tip returns the best block.
func (n *Node) Tip() *massutil.Block { return n.Chain[len(n.Chain)-1] }

// Height returns the best height.
func (n *Node) Height() uint64 { return uint64(len(n.Chain) - 1) }

func (n *Node) publishHeight() {
	// the shared Blockchain's reported best height mirrors this node's tip. mass-core reads the
	// field without a lock (it replaces the node under its own lock), so under the race detector
	// the harness must not write it: there the reported height stays 0 and the wallet catches up
	// through tip announcements only.
	if noPublish {
		return
	}
	sharedChain.BestBlockNode().Height = n.Height()
	pointSharedChainAt(n.db)
}

// pointSharedChainAt lets the shared Blockchain answer its pass-through data queries
// (GetTransactionInDB, GetUnexpiredStakingRank, ... - used by package api's handlers, never by the
// wallet itself) from the chain database of the node that published its height last, as the real
// node's Blockchain answers from the one chain database. The field is unexported in mass-core.
func pointSharedChainAt(db database.Db) {
	f := reflect.ValueOf(sharedChain).Elem().FieldByName("db")
	if !f.IsValid() {
		return
	}
	reflect.NewAt(f.Type(), unsafe.Pointer(f.UnsafeAddr())).Elem().Set(reflect.ValueOf(db))
}

var noPublish = os.Getenv("VERIF_NO_PUBLISH_HEIGHT") != ""

// PublishHeight re-publishes this node's height (used when several nodes alternate in one process).
func (n *Node) PublishHeight() { n.publishHeight() }

// NextUnique returns a per-node counter value (keeps coinbases and headers distinct).
func (n *Node) NextUnique() uint64 { n.counter++; return n.counter }

// NewBlock assembles a block on top of prev: coinbase paying cbOuts followed by txs.
func (n *Node) NewBlock(prev *massutil.Block, cbOuts []*wire.TxOut, txs []*wire.MsgTx) *massutil.Block {
	height := prev.Height() + 1
	uniq := n.NextUnique()
	cb := wire.NewMsgTx()
	cb.AddTxIn(wire.NewTxIn(wire.NewOutPoint(&wire.Hash{}, wire.MaxPrevOutIndex), nil))
	payload := make([]byte, 16)
	binary.LittleEndian.PutUint64(payload, height)
	binary.LittleEndian.PutUint64(payload[8:], uniq)
	cb.Payload = payload
	for _, o := range cbOuts {
		cb.AddTxOut(o)
	}
	if len(cbOuts) == 0 {
		// a coinbase needs an output to be serialisable in all codecs; pay a burn script
		cb.AddTxOut(wire.NewTxOut(0, []byte{0x6a}))
	}
	hdr := config.ChainParams.GenesisBlock.Header // copy of a structurally valid header
	hdr.Height = height
	hdr.Previous = *prev.Hash()
	hdr.Timestamp = time.Unix(prev.MsgBlock().Header.Timestamp.Unix()+45, 0)
	all := append([]*wire.MsgTx{cb}, txs...)
	var cat []byte
	for _, tx := range all {
		h := tx.TxHash()
		cat = append(cat, h[:]...)
	}
	hdr.TransactionRoot = wire.DoubleHashH(cat)
	var ch [8]byte
	binary.LittleEndian.PutUint64(ch[:], uniq)
	hdr.Challenge = wire.DoubleHashH(ch[:])
	mb := wire.NewMsgBlock(&hdr)
	for _, tx := range all {
		mb.AddTransaction(tx)
	}
	return massutil.NewBlock(mb)
}

// Attach connects blk on top of the current tip (submit, index, commit), like the node's connectBlock.
func (n *Node) Attach(blk *massutil.Block) (err error) {
	n.mu.Lock()
	defer n.mu.Unlock()
	defer func() {
		// mass-core logs at PANIC level (which panics) when its indexer refuses a block
		if r := recover(); r != nil {
			n.db.Rollback()
			err = fmt.Errorf("sim: node refused block %d: %v", blk.Height(), r)
		}
	}()
	tip := n.Tip()
	if blk.MsgBlock().Header.Previous != *tip.Hash() || blk.Height() != tip.Height()+1 {
		return fmt.Errorf("sim: block %d does not extend tip %d", blk.Height(), tip.Height())
	}
	store := blockchain.TxStore{}
	inBlock := map[wire.Hash]*massutil.Tx{}
	for _, tx := range blk.Transactions() {
		inBlock[*tx.Hash()] = tx
	}
	for i, tx := range blk.Transactions() {
		if i == 0 {
			continue
		}
		for _, in := range tx.MsgTx().TxIn {
			h := in.PreviousOutPoint.Hash
			prev := n.txs[h]
			if prev == nil {
				prev = inBlock[h]
			}
			if prev == nil {
				return fmt.Errorf("sim: input tx %v unknown", h)
			}
			store[h] = &blockchain.TxData{Tx: prev, Hash: prev.Hash()}
		}
	}
	if err := n.db.SubmitBlock(blk); err != nil {
		n.db.Rollback()
		return fmt.Errorf("sim: SubmitBlock: %v", err)
	}
	trie, err := n.sdb.OpenBindingTrie(n.roots[*tip.Hash()])
	if err != nil {
		n.db.Rollback()
		return err
	}
	if err := n.ai.SyncAttachBlock(trie, blk, store); err != nil {
		n.db.Rollback()
		return fmt.Errorf("sim: SyncAttachBlock: %v", err)
	}
	root, err := trie.Commit()
	if err != nil {
		n.db.Rollback()
		return err
	}
	if err := n.db.Commit(*blk.Hash()); err != nil {
		n.db.Rollback()
		return fmt.Errorf("sim: Commit: %v", err)
	}
	n.roots[*blk.Hash()] = root
	for _, tx := range blk.Transactions() {
		n.txs[*tx.Hash()] = tx
	}
	n.Chain = append(n.Chain, blk)
	n.publishHeight()
	return nil
}

// DetachTip disconnects the best block, like the node's disconnectBlock.
func (n *Node) DetachTip() error {
	n.mu.Lock()
	defer n.mu.Unlock()
	if len(n.Chain) <= 1 {
		return fmt.Errorf("sim: cannot detach genesis")
	}
	blk := n.Tip()
	if err := n.db.DeleteBlock(blk.Hash()); err != nil {
		n.db.Rollback()
		return fmt.Errorf("sim: DeleteBlock: %v", err)
	}
	if err := n.ai.SyncDetachBlock(blk); err != nil {
		n.db.Rollback()
		return fmt.Errorf("sim: SyncDetachBlock: %v", err)
	}
	if err := n.db.Commit(*blk.Hash()); err != nil {
		n.db.Rollback()
		return fmt.Errorf("sim: Commit(detach): %v", err)
	}
	n.Chain = n.Chain[:len(n.Chain)-1]
	n.publishHeight()
	return nil
}

// KnownTx returns a transaction this node has seen in any block.
func (n *Node) KnownTx(h wire.Hash) *wire.MsgTx {
	if t := n.txs[h]; t != nil {
		return t.MsgTx()
	}
	return nil
}

// DrainPool empties the process-wide memory pool (kept empty by design, see DESIGN 2.2) and
// reports how many transactions it held; used after API calls that may hand it a transaction.
func DrainPool() int {
	n := 0
	for _, d := range sharedPool.TxDescs() {
		sharedPool.RemoveTransaction(d.Tx, true)
		n++
	}
	return n
}

// Server is the masswallet.Server view of this node.
type Server struct{ N *Node }

func (s *Server) Blockchain() *blockchain.Blockchain { return sharedChain }
func (s *Server) ChainDB() database.Db               { return &lockedDb{Db: s.N.db, n: s.N} }
func (s *Server) TxMemPool() *blockchain.TxPool      { return sharedPool }
func (s *Server) SyncManager() *netsync.SyncManager  { return sharedSync }

// lockedDb is the node's chain database as the wallet sees it. In the real node the blockchain
// serialises block connection against readers; the simulator calls the chain database directly from
// the test goroutine, so when the wallet's own goroutines run (live mode) their reads are serialised
// against Attach / DetachTip here. Only the calls the wallet makes are wrapped.
type lockedDb struct {
	database.Db
	n *Node
}

func (l *lockedDb) FetchBlockBySha(sha *wire.Hash) (*massutil.Block, error) {
	l.n.mu.Lock()
	defer l.n.mu.Unlock()
	return l.Db.FetchBlockBySha(sha)
}
func (l *lockedDb) FetchBlockHeaderBySha(sha *wire.Hash) (*wire.BlockHeader, error) {
	l.n.mu.Lock()
	defer l.n.mu.Unlock()
	return l.Db.FetchBlockHeaderBySha(sha)
}
func (l *lockedDb) FetchBlockShaByHeight(h uint64) (*wire.Hash, error) {
	l.n.mu.Lock()
	defer l.n.mu.Unlock()
	return l.Db.FetchBlockShaByHeight(h)
}
func (l *lockedDb) FetchBlockLocByHeight(h uint64) (*database.BlockLoc, error) {
	l.n.mu.Lock()
	defer l.n.mu.Unlock()
	return l.Db.FetchBlockLocByHeight(h)
}
func (l *lockedDb) FetchTxByLoc(h uint64, off int, ln int) (*wire.MsgTx, error) {
	l.n.mu.Lock()
	defer l.n.mu.Unlock()
	return l.Db.FetchTxByLoc(h, off, ln)
}
func (l *lockedDb) FetchTxByFileLoc(b *database.BlockLoc, tl *wire.TxLoc) (*wire.MsgTx, error) {
	l.n.mu.Lock()
	defer l.n.mu.Unlock()
	return l.Db.FetchTxByFileLoc(b, tl)
}
func (l *lockedDb) FetchTxBySha(sha *wire.Hash) ([]*database.TxReply, error) {
	l.n.mu.Lock()
	defer l.n.mu.Unlock()
	return l.Db.FetchTxBySha(sha)
}
func (l *lockedDb) NewestSha() (*wire.Hash, uint64, error) {
	l.n.mu.Lock()
	defer l.n.mu.Unlock()
	return l.Db.NewestSha()
}
func (l *lockedDb) FetchScriptHashRelatedTx(hs [][]byte, a, b uint64) (map[uint64][]*wire.TxLoc, error) {
	l.n.mu.Lock()
	defer l.n.mu.Unlock()
	return l.Db.FetchScriptHashRelatedTx(hs, a, b)
}
func (l *lockedDb) CheckScriptHashUsed(h []byte) (bool, error) {
	l.n.mu.Lock()
	defer l.n.mu.Unlock()
	return l.Db.CheckScriptHashUsed(h)
}
