package sim

import (
	"crypto/sha256"
	"strings"

	"github.com/massnetorg/mass-core/massutil"
	"github.com/massnetorg/mass-core/massutil/bech32"
	"golang.org/x/crypto/ripemd160"
	"massnet.org/mass-wallet/config"
	"verifharness/ref"
)

// WalletKeys is the harness's own derivation of everything a wallet is determined by
// (mnemonic, passphrase): BIP-39 seed -> BIP-32 m/44'/297'/1'/branch/index, all through the
// independent references.
type WalletKeys struct {
	Entropy  []byte
	Mnemonic string
	Pass     string
	Seed     []byte
	Master   *ref.XKey
	Purpose  *ref.XKey
	Coin     *ref.XKey
	Account  *ref.XKey
	External *ref.XKey
	Internal *ref.XKey
	ID       string
}

// AddrKeys is one address of a wallet.
type AddrKeys struct {
	Index      uint32
	Priv       [32]byte
	Pub        [33]byte
	Redeem     []byte
	ScriptHash [32]byte
	Std        string // witness-v0 script-hash address
	Staking    string // staking form of the same script hash
}

// DeriveWallet derives the key tree. ok=false when the path crosses the recorded BIP-32
// deviation (hardened child of a short-scalar parent, C14 known finding): callers then pick
// another entropy so that finding is not double-counted elsewhere.
func DeriveWallet(entropy []byte, pass string) (k *WalletKeys, ok bool) {
	words, err := ref.Bip39Encode(entropy)
	if err != nil {
		return nil, false
	}
	k = &WalletKeys{Entropy: entropy, Mnemonic: strings.Join(words, " "), Pass: pass}
	k.Seed = ref.Bip39Seed(k.Mnemonic, pass)
	if k.Master, err = ref.XMaster(k.Seed); err != nil {
		return nil, false
	}
	if k.Purpose, err = k.Master.Child(ref.H + 44); err != nil {
		return nil, false
	}
	if k.Purpose.K[0] == 0 {
		return nil, false
	}
	if k.Coin, err = k.Purpose.Child(ref.H + config.ChainParams.HDCoinType); err != nil {
		return nil, false
	}
	if k.Coin.K[0] == 0 {
		return nil, false
	}
	if k.Account, err = k.Coin.Child(ref.H + 1); err != nil {
		return nil, false
	}
	if k.External, err = k.Account.Child(0); err != nil {
		return nil, false
	}
	if k.Internal, err = k.Account.Child(1); err != nil {
		return nil, false
	}
	s := sha256.Sum256(k.Account.P[:])
	r := ripemd160.New()
	r.Write(s[:])
	conv, err := bech32.ConvertBits(r.Sum(nil), 8, 5, true)
	if err != nil {
		return nil, false
	}
	id, err := bech32.Encode("ac", append([]byte{15}, conv...))
	if err != nil {
		return nil, false
	}
	k.ID = id
	return k, true
}

// Addr derives external address i (nil if the index is an invalid child, probability ~2^-127).
func (k *WalletKeys) Addr(i uint32) *AddrKeys { return k.addrAt(k.External, i) }

// AddrInternal derives address i of the internal (change) branch m/44'/coin'/1'/1/i.
func (k *WalletKeys) AddrInternal(i uint32) *AddrKeys { return k.addrAt(k.Internal, i) }

func (k *WalletKeys) addrAt(branch *ref.XKey, i uint32) *AddrKeys {
	c, err := branch.Child(i)
	if err != nil {
		return nil
	}
	a := &AddrKeys{Index: i, Priv: c.K, Pub: c.P}
	// 1-of-1 multisig redeem script: OP_1 <33-byte key> OP_1 OP_CHECKMULTISIG
	a.Redeem = append(append([]byte{0x51, 0x21}, c.P[:]...), 0x51, 0xae)
	a.ScriptHash = sha256.Sum256(a.Redeem)
	std, err := massutil.NewAddressWitnessScriptHash(a.ScriptHash[:], config.ChainParams)
	if err != nil {
		return nil
	}
	stk, err := massutil.NewAddressStakingScriptHash(a.ScriptHash[:], config.ChainParams)
	if err != nil {
		return nil
	}
	a.Std, a.Staking = std.EncodeAddress(), stk.EncodeAddress()
	return a
}

// EntropyFor makes a usable entropy out of drawn bytes by bumping the last byte until the
// derivation avoids the recorded deviation (returns how many bumps were needed).
func EntropyFor(e []byte, pass string) (*WalletKeys, int) {
	e = append([]byte(nil), e...)
	for n := 0; n < 64; n++ {
		if k, ok := DeriveWallet(e, pass); ok {
			return k, n
		}
		e[len(e)-1]++
	}
	return nil, 64
}
