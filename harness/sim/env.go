//go:build verif
// +build verif

package sim

import (
	"fmt"
	"os"
	"path/filepath"
	"time"
	"unsafe"

	"github.com/massnetorg/mass-core/wire"
	"massnet.org/mass-wallet/config"
	"massnet.org/mass-wallet/masswallet"
	mwdb "massnet.org/mass-wallet/masswallet/db"
	_ "massnet.org/mass-wallet/masswallet/db/ldb"
	"verifharness/guard"
)

// Env is one wallet instance (real WalletManager over a real LevelDB directory) attached to a
// simulated node, driven in stepped mode: the harness goroutine plays the handler's select loop.
type Env struct {
	Node    *Node
	Dir     string
	DBPath  string
	RawDB   mwdb.DB // the real ldb database
	DB      mwdb.DB // what the wallet sees (RawDB or a wrapper)
	W       *masswallet.WalletManager
	H       *masswallet.NtfnsHandler
	Cfg     *config.Config
	PubPass string
	Queue   []*wire.MsgBlock // tip notifications announced but not yet processed
	Wrap    func(mwdb.DB) mwdb.DB
	worker  bool
	closed  bool
	stopErr error
}

// DefaultPubPass is the public passphrase new instances are created with.
var DefaultPubPass = "verifPubPass1"

// NewEnv creates a fresh wallet database directory and opens a wallet on it.
func NewEnv(node *Node, gapLimit uint32, wrap func(mwdb.DB) mwdb.DB) (*Env, error) {
	guard.Install()
	dir, err := os.MkdirTemp(os.Getenv("VERIF_SCRATCH"), "simwallet")
	if err != nil {
		return nil, err
	}
	cfg := &config.Config{Core: config.NewDefCoreConfig(), Wallet: config.NewDefWalletConfig()}
	cfg.Wallet.Settings.AddressGapLimit = gapLimit
	// the adjustments config.LoadConfig applies to the advanced wallet settings
	if cfg.Wallet.Settings.AddressGapLimit <= cfg.Wallet.Settings.MaxUnusedStakingAddress {
		cfg.Wallet.Settings.MaxUnusedStakingAddress = (uint32)(float32(cfg.Wallet.Settings.AddressGapLimit) * 0.2)
	}
	if cfg.Wallet.Settings.MaxUnusedStakingAddress == 0 {
		cfg.Wallet.Settings.MaxUnusedStakingAddress = 1
	}
	if len(cfg.Wallet.Settings.MaxTxFee) == 0 {
		cfg.Wallet.Settings.MaxTxFee = config.DefaultMaxTxFee
	}
	e := &Env{Node: node, Dir: dir, DBPath: filepath.Join(dir, "wallet.db"), Cfg: cfg, PubPass: DefaultPubPass, Wrap: wrap}
	if err := e.Open(true); err != nil {
		os.RemoveAll(dir)
		return nil, err
	}
	return e, nil
}

// Open opens (or creates) the database and constructs the WalletManager.
func (e *Env) Open(create bool) error {
	var err error
	if create {
		e.RawDB, err = mwdb.CreateDB("leveldb", e.DBPath)
	} else {
		e.RawDB, err = mwdb.OpenDB("leveldb", e.DBPath)
	}
	if err != nil {
		return fmt.Errorf("open wallet db: %v", err)
	}
	e.DB = e.RawDB
	if e.Wrap != nil {
		e.DB = e.Wrap(e.RawDB)
	}
	e.W, err = masswallet.NewWalletManager(&Server{N: e.Node}, e.DB, e.Cfg, config.ChainParams, e.PubPass)
	if err != nil {
		e.RawDB.Close()
		return fmt.Errorf("NewWalletManager: %v", err)
	}
	e.H = e.W.VerifHandler()
	e.worker = false
	return nil
}

// HandlerPtr identifies this wallet's handler in goroutine dumps.
func (e *Env) HandlerPtr() uintptr { return uintptr(unsafe.Pointer(e.H)) }

// StartStepped starts only the real worker goroutine and waits until it is initialised.
func (e *Env) StartStepped() error {
	e.H.VerifStartWorkerOnly()
	e.worker = true
	deadline := time.Now().Add(10 * time.Second)
	for !e.H.VerifWorkerReady() {
		if time.Now().After(deadline) {
			return fmt.Errorf("worker did not initialise")
		}
		time.Sleep(100 * time.Microsecond)
	}
	_, err := guard.WaitWorker(e.HandlerPtr(), 10*time.Second)
	return err
}

// Announce queues a tip notification (what the node does once per extension / reorg).
func (e *Env) Announce(b *wire.MsgBlock) { e.Queue = append(e.Queue, b) }

// Deliver lets the handler process the oldest queued notification.
func (e *Env) Deliver() (bool, error) {
	if len(e.Queue) == 0 {
		return false, nil
	}
	b := e.Queue[0]
	e.Queue = e.Queue[1:]
	return true, e.H.VerifProcessBlock(b)
}

// CatchUp announces the node's current tip and lets the handler process it (what Start()'s
// catch-up loop achieves for a freshly opened instance).
func (e *Env) CatchUp() error {
	if e.Node.Height() == 0 {
		return nil
	}
	e.Queue = nil
	return e.H.VerifProcessBlock(e.Node.Tip().MsgBlock())
}

// ServeWorker lets the worker run exactly one suspended section (one db.Update) and waits until
// the worker is parked again. It reports false if the worker did not ask for a section.
func (e *Env) ServeWorker(wait time.Duration) (bool, error) {
	if !e.H.VerifServeSuspend(wait) {
		return false, nil
	}
	_, err := guard.WaitWorker(e.HandlerPtr(), 20*time.Second)
	return true, err
}

// StopWallet stops the worker and closes the database (a clean shutdown of the instance). If the
// worker cannot be stopped (e.g. a panic left the database write lock held) the instance is
// abandoned after a bounded wait instead of hanging the test process.
func (e *Env) StopWallet() error {
	o := guard.Call(15*time.Second, func() { e.stopErr = e.stopWallet() })
	if o.Kind != "done" {
		e.worker = false
		return fmt.Errorf("instance could not be stopped (%s); abandoned", o.Kind)
	}
	return e.stopErr
}

func (e *Env) stopWallet() error {
	if e.worker {
		if !e.H.VerifStopWorker(150 * time.Millisecond) {
			// the worker may be blocked in the suspend hand-shake; serve it until it can leave
			for i := 0; i < 1000; i++ {
				if !e.H.VerifServeSuspend(50 * time.Millisecond) {
					if guard.WorkerState(e.HandlerPtr()) == "absent" {
						break
					}
				}
			}
			if guard.WorkerState(e.HandlerPtr()) != "absent" {
				return fmt.Errorf("worker did not stop: %s", guard.WorkerState(e.HandlerPtr()))
			}
		}
		e.worker = false
	}
	return e.RawDB.Close()
}

// Restart closes the instance cleanly and opens a new WalletManager on the same directory.
func (e *Env) Restart() error {
	if err := e.StopWallet(); err != nil {
		return err
	}
	return e.Open(false)
}

// Close stops everything and removes the directory.
func (e *Env) Close() {
	if e.closed {
		return
	}
	e.closed = true
	e.StopWallet()
	os.RemoveAll(e.Dir)
}
