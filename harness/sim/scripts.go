package sim

import (
	"encoding/binary"

	"github.com/massnetorg/mass-core/wire"
)

// Output script templates, built byte by byte (independent of the script builder).

// StdScript pays a 32-byte witness script hash.
func StdScript(h [32]byte) []byte { return append([]byte{0x00, 0x20}, h[:]...) }

// StakingScript locks to a script hash for a frozen period.
func StakingScript(h [32]byte, period uint64) []byte {
	s := append([]byte{0x00, 0x20}, h[:]...)
	p := make([]byte, 8)
	binary.LittleEndian.PutUint64(p, period)
	return append(append(s, 0x08), p...)
}

// BindingScript binds holder h to a 20-byte (old) or 22-byte (new) target.
func BindingScript(h [32]byte, target []byte) []byte {
	s := append([]byte{0x00, 0x20}, h[:]...)
	return append(append(s, byte(len(target))), target...)
}

// NullDataScript is OP_RETURN <data>.
func NullDataScript(data []byte) []byte {
	if len(data) == 0 {
		return []byte{0x6a}
	}
	return append([]byte{0x6a, byte(len(data))}, data...)
}

// Spend builds a transaction input for an outpoint with the given sequence.
func Spend(h wire.Hash, idx uint32, seq uint64) *wire.TxIn {
	in := wire.NewTxIn(wire.NewOutPoint(&h, idx), nil)
	in.Sequence = seq
	return in
}

// BareMultiSigScript is a bare 1-of-1 multisig output (a script class no wallet address can own).
// Block validation in mass-core (checkParsePkScriptNew) refuses multisig and non-standard outputs,
// so a real node never delivers one; the histories keep them in some worlds only as a robustness
// margin (the wallet must simply skip them), and no oracle may demand more than that of them.
func BareMultiSigScript(pub [33]byte) []byte {
	return append(append([]byte{0x51, 0x21}, pub[:]...), 0x51, 0xae)
}
