// Package ev collects what a check run actually covered and writes it as an
// evidence shard (JSON). The driver (/verif/check) merges shards of one run
// into /verif/evidence/<id>.json.
package ev

import (
	"encoding/json"
	"fmt"
	"hash/fnv"
	"os"
	"sort"
	"strconv"
	"sync"
	"time"
)

// Rec is the evidence recorder of one property in one process.
type Rec struct {
	mu        sync.Mutex
	ID        string
	Level     string
	Rule      string
	start     time.Time
	evals     int
	nontriv   map[uint64]struct{}
	labels    map[string]int
	samples   []interface{}
	sampleCnt map[string]int
	viol      int
	known     map[string]string
	excluded  int
	notes     map[string]interface{}
	assume    []string
	exhaust   *bool
}

var (
	regMu sync.Mutex
	reg   = map[string]*Rec{}
)

// Open returns the process-wide recorder for property id.
func Open(id, level, rule string) *Rec {
	regMu.Lock()
	defer regMu.Unlock()
	if r, ok := reg[id]; ok {
		return r
	}
	r := &Rec{ID: id, Level: level, Rule: rule, start: time.Now(),
		nontriv: map[uint64]struct{}{}, labels: map[string]int{}, sampleCnt: map[string]int{},
		known: map[string]string{}, notes: map[string]interface{}{}}
	reg[id] = r
	return r
}

func h64(s string) uint64 {
	h := fnv.New64a()
	h.Write([]byte(s))
	return h.Sum64()
}

// Case records one evaluated case. key identifies the case structurally (two
// cases with equal key count once for distinct_nontrivial).
func (r *Rec) Case(key string, nontrivial bool, labels ...string) {
	r.mu.Lock()
	defer r.mu.Unlock()
	r.evals++
	if nontrivial {
		r.nontriv[h64(key)] = struct{}{}
	}
	for _, l := range labels {
		r.labels[l]++
	}
}

// Label counts a class without counting an evaluation.
func (r *Rec) Label(l string, n int) {
	r.mu.Lock()
	defer r.mu.Unlock()
	r.labels[l] += n
}

// Sample keeps up to max samples per class.
func (r *Rec) Sample(class string, max int, v interface{}) {
	r.mu.Lock()
	defer r.mu.Unlock()
	if r.sampleCnt[class] >= max {
		return
	}
	r.sampleCnt[class]++
	r.samples = append(r.samples, map[string]interface{}{"class": class, "case": v})
}

func (r *Rec) Violation()          { r.mu.Lock(); r.viol++; r.mu.Unlock() }
func (r *Rec) Excluded(n int)      { r.mu.Lock(); r.excluded += n; r.mu.Unlock() }
func (r *Rec) Assume(s string)     { r.mu.Lock(); r.assume = append(r.assume, s); r.mu.Unlock() }
func (r *Rec) Exhaustive(b bool)   { r.mu.Lock(); r.exhaust = &b; r.mu.Unlock() }
func (r *Rec) Note(k string, v interface{}) {
	r.mu.Lock()
	r.notes[k] = v
	r.mu.Unlock()
}

// Known reports a known finding (printed once per key by the driver).
func (r *Rec) Known(key, what string) {
	r.mu.Lock()
	defer r.mu.Unlock()
	if _, ok := r.known[key]; ok {
		return
	}
	r.known[key] = what
	fmt.Printf("KNOWN-FINDING: property=%s key=%s %s\n", r.ID, key, what)
}

// Evals returns the number of evaluations so far.
func (r *Rec) Evals() int { r.mu.Lock(); defer r.mu.Unlock(); return r.evals }

// LabelCount returns the current count of a label.
func (r *Rec) LabelCount(l string) int { r.mu.Lock(); defer r.mu.Unlock(); return r.labels[l] }

type shard struct {
	PropertyID string                 `json:"property_id"`
	Level      string                 `json:"level"`
	Rule       string                 `json:"rule"`
	Evals      int                    `json:"evaluations"`
	Keys       []uint64               `json:"distinct_keys"`
	Labels     map[string]int         `json:"labels"`
	Samples    []interface{}          `json:"samples"`
	Violations int                    `json:"violations"`
	Known      map[string]string      `json:"known"`
	Excluded   int                    `json:"excluded_known"`
	Notes      map[string]interface{} `json:"notes"`
	Assume     []string               `json:"assumptions"`
	Exhaustive *bool                  `json:"exhaustive,omitempty"`
	WallS      float64                `json:"wall_s"`
}

// FlushAll writes every recorder to $VERIF_EVIDENCE_OUT.<id>.json (if set).
func FlushAll() {
	out := os.Getenv("VERIF_EVIDENCE_OUT")
	if out == "" {
		return
	}
	regMu.Lock()
	defer regMu.Unlock()
	for id, r := range reg {
		r.mu.Lock()
		keys := make([]uint64, 0, len(r.nontriv))
		for k := range r.nontriv {
			keys = append(keys, k)
		}
		sort.Slice(keys, func(i, j int) bool { return keys[i] < keys[j] })
		s := shard{PropertyID: id, Level: r.Level, Rule: r.Rule, Evals: r.evals, Keys: keys,
			Labels: r.labels, Samples: r.samples, Violations: r.viol, Known: r.known,
			Excluded: r.excluded, Notes: r.notes, Assume: r.assume, Exhaustive: r.exhaust,
			WallS: time.Since(r.start).Seconds()}
		r.mu.Unlock()
		b, err := json.Marshal(s)
		if err != nil {
			fmt.Fprintf(os.Stderr, "ev: marshal %s: %v\n", id, err)
			continue
		}
		tmp := out + "." + id + ".json.tmp"
		if err := os.WriteFile(tmp, b, 0644); err != nil {
			fmt.Fprintf(os.Stderr, "ev: write: %v\n", err)
			continue
		}
		os.Rename(tmp, out+"."+id+".json")
	}
}

// Seed returns VERIF_SEED (0 remapped to 1).
func Seed() uint64 {
	v, err := strconv.ParseUint(os.Getenv("VERIF_SEED"), 10, 64)
	if err != nil || v == 0 {
		return 1
	}
	return v
}

// Tier returns "quick" or "thorough".
func Tier() string {
	if os.Getenv("VERIF_TIER") == "thorough" {
		return "thorough"
	}
	return "quick"
}

// Thorough reports whether the thorough tier runs.
func Thorough() bool { return Tier() == "thorough" }
