// Package guard turns events that would kill or wedge the test process (FATAL log exits,
// panics in calls, calls that never return) into observable results, and inspects goroutine
// dumps to learn where the wallet's goroutines are parked.
package guard

import (
	"fmt"
	"regexp"
	"runtime"
	"runtime/debug"
	"strings"
	"sync"
	"sync/atomic"
	"time"

	"github.com/sirupsen/logrus"
)

var (
	fatalCount int64
	fatalMu    sync.Mutex
	fatalStack []string
	once       sync.Once
)

// Install registers the logrus exit handler: logging.CPrint(FATAL) ends in logrus.Exit ->
// os.Exit(1); the handler records the event and parks the calling goroutine forever instead.
func Install() {
	once.Do(func() {
		logrus.RegisterExitHandler(func() {
			atomic.AddInt64(&fatalCount, 1)
			fatalMu.Lock()
			fatalStack = append(fatalStack, string(debug.Stack()))
			fatalMu.Unlock()
			select {}
		})
	})
}

// Fatals returns how many FATAL exits were intercepted so far.
func Fatals() int { return int(atomic.LoadInt64(&fatalCount)) }

// LastFatal returns the stack of the latest intercepted FATAL.
func LastFatal() string {
	fatalMu.Lock()
	defer fatalMu.Unlock()
	if len(fatalStack) == 0 {
		return ""
	}
	return fatalStack[len(fatalStack)-1]
}

// Outcome of a guarded call.
type Outcome struct {
	Kind  string // "done", "panic", "fatal", "stall"
	Panic interface{}
	Stack string
}

// Call runs f in its own goroutine and classifies how it ended.
func Call(limit time.Duration, f func()) Outcome {
	before := Fatals()
	done := make(chan Outcome, 1)
	go func() {
		defer func() {
			if r := recover(); r != nil {
				done <- Outcome{Kind: "panic", Panic: r, Stack: string(debug.Stack())}
			}
		}()
		f()
		done <- Outcome{Kind: "done"}
	}()
	deadline := time.After(limit)
	tick := time.NewTicker(2 * time.Millisecond)
	defer tick.Stop()
	for {
		select {
		case o := <-done:
			return o
		case <-tick.C:
			if Fatals() > before {
				return Outcome{Kind: "fatal", Stack: LastFatal()}
			}
		case <-deadline:
			return Outcome{Kind: "stall", Stack: AllStacks()}
		}
	}
}

// AllStacks returns the dump of every goroutine.
func AllStacks() string {
	buf := make([]byte, 1<<20)
	for {
		n := runtime.Stack(buf, true)
		if n < len(buf) {
			return string(buf[:n])
		}
		buf = make([]byte, 2*len(buf))
	}
}

var hdrRe = regexp.MustCompile(`^goroutine (\d+) \[([^\],]+)`)

// Goroutine is one parsed goroutine of a dump.
type Goroutine struct {
	State  string
	Frames []string // function names, innermost first
	Raw    string
}

// Parse splits a dump.
func Parse(dump string) []Goroutine {
	var out []Goroutine
	for _, blk := range strings.Split(dump, "\n\n") {
		lines := strings.Split(strings.TrimSpace(blk), "\n")
		if len(lines) == 0 {
			continue
		}
		m := hdrRe.FindStringSubmatch(lines[0])
		if m == nil {
			continue
		}
		g := Goroutine{State: m[2], Raw: blk}
		for _, l := range lines[1:] {
			if strings.HasPrefix(l, "\t") || strings.HasPrefix(l, "created by") {
				continue
			}
			if i := strings.LastIndex(l, "("); i > 0 {
				g.Frames = append(g.Frames, l[:i])
			}
		}
		out = append(out, g)
	}
	return out
}

// Has reports whether the goroutine has a frame containing sub.
func (g Goroutine) Has(sub string) bool {
	for _, f := range g.Frames {
		if strings.Contains(f, sub) {
			return true
		}
	}
	return false
}

// firstRepoFrame returns the innermost frame of the wallet module.
func (g Goroutine) FirstRepoFrame() string {
	for _, f := range g.Frames {
		if strings.Contains(f, "massnet.org/mass-wallet/") {
			return f
		}
	}
	return ""
}

// WorkerState describes where a wallet's background worker goroutine is: "absent" (not
// running), "idle" (waiting for a task), "suspend" (blocked in the suspend hand-shake send),
// "resume" (blocked in the resume send), "busy" (anything else). handler is the
// *NtfnsHandler pointer value (0 = any worker).
func WorkerState(handler uintptr) string {
	tag := ""
	if handler != 0 {
		tag = fmt.Sprintf("masswallet.worker(0x%x", handler)
	}
	for _, g := range Parse(AllStacks()) {
		if !g.Has("masswallet.worker") {
			continue
		}
		if tag != "" && !strings.Contains(g.Raw, tag) {
			continue
		}
		top := g.FirstRepoFrame()
		switch {
		case (g.State == "chan send" || g.State == "select") && strings.HasSuffix(top, ".suspend"):
			return "suspend" // the hand-shake send (a select with the quit channel since fix fa8eaa6)
		case g.State == "chan send" && strings.HasSuffix(top, ".resume"):
			return "resume"
		case g.State == "select" && strings.HasSuffix(top, "masswallet.worker"):
			return "idle"
		default:
			return "busy"
		}
	}
	return "absent"
}

// HandlerState describes where a wallet's chain-follower goroutine (handle) is: "absent", "idle"
// (in its select), "resume-wait" (took a suspend request and waits for the resume), "busy".
func HandlerState(handler uintptr) string {
	tag := ""
	if handler != 0 {
		tag = fmt.Sprintf("masswallet.handle(0x%x", handler)
	}
	for _, g := range Parse(AllStacks()) {
		if !g.Has("masswallet.handle") {
			continue
		}
		if tag != "" && !strings.Contains(g.Raw, tag) {
			continue
		}
		top := g.FirstRepoFrame()
		switch {
		case g.State == "select" && strings.HasSuffix(top, "masswallet.handle"):
			return "idle"
		case g.State == "chan receive" && strings.HasSuffix(top, "masswallet.handle"):
			return "resume-wait"
		default:
			return "busy"
		}
	}
	return "absent"
}

// WaitWorker waits until the worker goroutine is parked (idle / suspend / resume) or absent.
func WaitWorker(handler uintptr, limit time.Duration) (string, error) {
	deadline := time.Now().Add(limit)
	for {
		s := WorkerState(handler)
		if s != "busy" {
			return s, nil
		}
		if time.Now().After(deadline) {
			return s, fmt.Errorf("worker still busy after %v", limit)
		}
		time.Sleep(200 * time.Microsecond)
	}
}

// BlockedAt reports, for the wallet goroutine running fn ("masswallet.worker" / "masswallet.handle")
// of the given handler, the runtime's wait state, whether that state is a blocking primitive (mutex,
// semaphore, channel operation, select, condition variable, wait group) and the goroutine's stack
// text. Two samples taken seconds apart that are blocking and identical mean the goroutine has not
// moved: it is parked, not working.
func BlockedAt(handler uintptr, fn string) (state string, blocking bool, stack string) {
	tag := fmt.Sprintf("%s(0x%x", fn, handler)
	for _, blk := range strings.Split(AllStacks(), "\n\n") {
		if !strings.Contains(blk, tag) {
			continue
		}
		blk = strings.TrimSpace(blk)
		hdr := strings.SplitN(blk, "\n", 2)[0]
		i, j := strings.Index(hdr, "["), strings.LastIndex(hdr, "]")
		if i < 0 || j < i {
			return "", false, blk
		}
		state = strings.TrimSpace(strings.Split(hdr[i+1:j], ",")[0])
		for _, b := range []string{"sync.Mutex.Lock", "sync.RWMutex", "semacquire", "chan send", "chan receive", "select", "sync.Cond.Wait", "sync.WaitGroup.Wait"} {
			blocking = blocking || strings.HasPrefix(state, b)
		}
		// drop the header (it may gain a wait time between samples)
		if k := strings.Index(blk, "\n"); k >= 0 {
			stack = blk[k+1:]
		}
		return state, blocking, stack
	}
	return "", false, ""
}
