#!/bin/bash
# usage: tools_seedconfirm.sh <worktree> <demo_test_file_in__seed> <pkg dir rel> <changed file rel> <test run regex>
# confirms: demo FAILS with the change, PASSES with the changed file stashed; package tests pass with the change.
export GOFLAGS=-mod=mod GOPROXY=off GOSUMDB=off GOTOOLCHAIN=local
WT=$1; DEMO=$2; PKG=$3; FILE=$4; RUN=$5
cd $WT || exit 9
cp _seed/$DEMO $PKG/zz_seed_demo_test.go
echo "== with change (expect FAIL)"; go test -vet=off -count=1 -run "$RUN" ./$PKG/ 2>&1 | grep -av "ld:" | tail -4
git diff -- $FILE > /tmp/seedconfirm.$$.patch; git checkout -- $FILE
echo "== without change (expect ok)"; go test -vet=off -count=1 -run "$RUN" ./$PKG/ 2>&1 | grep -av "ld:" | tail -2
git apply /tmp/seedconfirm.$$.patch; rm -f /tmp/seedconfirm.$$.patch
rm $PKG/zz_seed_demo_test.go
git checkout go.sum 2>/dev/null
git status --short
