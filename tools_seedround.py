#!/usr/bin/env python3
"""Harness development tool: prepares scratch worktrees and task files for a round of seeded changes.
usage: tools_seedround.py <round-dir under /tmp> <Cxx> [<Cxx> ...]
Each sub-agent gets /tmp/<round>/<id> (a detached worktree of /repo) with _seed/PROPERTY.txt and _seed/TASK.txt -
nothing from /verif except the property text and the names of earlier changes (to be avoided)."""
import json, os, subprocess, sys
rnd, ids = sys.argv[1], sys.argv[2:]
base = f'/tmp/{rnd}'
os.makedirs(base, exist_ok=True)
for pid in ids:
    wt = f'{base}/{pid}'
    subprocess.run(['git', '-C', '/repo', 'worktree', 'add', '--detach', wt, 'HEAD'], check=True, capture_output=True)
    os.makedirs(f'{wt}/_seed', exist_ok=True)
    for l in open('/verif/properties.jsonl'):
        d = json.loads(l)
        if d['id'] == pid:
            open(f'{wt}/_seed/PROPERTY.txt', 'w').write(json.dumps(d, indent=1))
    prev = []
    for n in sorted(os.listdir('/verif/seeded')):
        if n.startswith(pid + '-'):
            m = json.load(open(f'/verif/seeded/{n}/meta.json'))
            prev.append('- ' + n[4:] + ' (' + ', '.join(m.get('files_changed', [])) + ')')
    open(f'{wt}/_seed/TASK.txt', 'w').write(f'''You work ONLY inside this directory: {wt} (a scratch git worktree of the Go project
massnetorg/MassNet-wallet). Never touch /repo or any other directory. NEVER use `git stash` (the stash is shared
between worktrees). Every shell call needs:
  export GOFLAGS=-mod=mod GOPROXY=off GOSUMDB=off GOTOOLCHAIN=local
There is no network. Please run test commands with `nice -n 10` in front (the machine is shared).

_seed/PROPERTY.txt states a semantic property of this code base (statement, quantifier, anchors).

Your job: make ONE small, realistic change to the production code (not to tests) - the kind of well-meant
refactoring, optimisation, tidy-up or "fix" a maintainer might merge - that BREAKS this property, while
 (a) everything still compiles (go build ./...),
 (b) the existing tests still pass: go test -vet=off -count=1 ./masswallet/... ./cmd/...
     (./api and ./config have tests that need a network and fail on the untouched tree too - ignore those),
 (c) the break needs something SPECIFIC to manifest - a particular kind of input, history, state or
     interleaving - it must not show on the plain happy path (create wallet, receive, send, restart),
 (d) the inputs / histories that make it manifest are ones that can really occur: requests a client can send
     through the API, and blocks / transactions that pass the node's consensus and mempool validation.
Prefer code that the property's anchors name, and prefer a place / mechanism different from these earlier
changes for the same property (do not repeat them):
{chr(10).join(prev)}

Then write a demonstration: a Go test file _seed/seed_demo_test.go (state in its header which package
directory it must be copied to, under the name zz_seed_demo_test.go) that FAILS with your change and PASSES
without it. Verify both directions yourself (to test without the change: `git diff > {base}/{pid}.diff;
git checkout -- <files>; go test ...; git apply {base}/{pid}.diff`). Do not leave the demo file inside the
package directories when you finish - only in _seed/.

Finally write (use a shell heredoc if a file-writing tool refuses)
  _seed/patch.diff   (git diff of the production change only, relative to the worktree root)
  _seed/REPORT.md    (what the change is, why it breaks the property, what is needed for it to manifest,
                      the exact command that runs the demo, and the test commands you ran with results)
and leave the change applied in the working tree. Keep the change minimal (a few lines). Reply with a
five-line summary.
''')
print('prepared', base, ids)
