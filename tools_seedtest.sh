#!/bin/bash
# usage: tools_seedtest.sh <patch.diff (absolute)> <Cxx> [tier]
# Harness development tool: runs a check against a scratch worktree of /repo that carries a seeded
# change (VERIF_REPO), with evidence and replays redirected to a scratch directory, so that it can run
# beside anything else. (Applying the patch to /repo itself - git -C /repo apply <file>; ./check ...;
# git -C /repo checkout -- . - gives the same result.)
set -u
P=$1; ID=$2; TIER=${3:-quick}
WT=$(mktemp -d /tmp/seedwt.XXXXXX); OUT=$(mktemp -d /tmp/seedout.XXXXXX)
rmdir $WT
git -C /repo worktree add --detach $WT HEAD >/dev/null 2>&1 || { echo "worktree failed"; exit 9; }
( cd $WT && git apply "$P" ) || { echo "patch does not apply"; git -C /repo worktree remove --force $WT; exit 9; }
cd /verif && VERIF_REPO=$WT VERIF_EVIDENCE_DIR=$OUT/evidence VERIF_REPLAY_DIR=$OUT/replays ./check "$ID" "$TIER" > $OUT/out.txt 2>&1; RC=$?
echo "rc=$RC"; grep -aE "VIOLATION|INCONCLUSIVE|property=|rapid\] (failed|panic)|data race:" $OUT/out.txt | cut -c1-330 | head -6
git -C /repo worktree remove --force $WT; rm -rf $OUT
exit 0
