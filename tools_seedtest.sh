#!/bin/bash
# usage: tools_seedtest.sh <patch.diff> <Cxx> [tier]  -- applies a seeded change to /repo, runs the check, reverts.
set -u
P=$1; ID=$2; TIER=${3:-quick}
cd /repo || exit 9
if ! git diff --quiet; then echo "repo dirty, abort"; exit 9; fi
git apply "$P" || { echo "patch does not apply"; exit 9; }
cd /verif && ./check "$ID" "$TIER" > /tmp/seedtest.out 2>&1; RC=$?
cd /repo && git checkout -- . 
echo "rc=$RC"; grep -aE "VIOLATION|INCONCLUSIVE|property=|rapid\] (failed|panic)|data race:" /tmp/seedtest.out | cut -c1-330 | head -6
# evidence file was rewritten by this run: restore the committed one
cd /verif && git checkout -- evidence 2>/dev/null; rm -rf /verif/replays
exit 0
