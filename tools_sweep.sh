#!/bin/bash
# usage: tools_sweep.sh <seed> [tier] [ids...]   - harness development tool: runs checks one after the other with
# evidence / replays redirected to a scratch directory (VERIF_SWEEP_REAL=1 writes the real evidence instead).
SEED=${1:-1}; TIER=${2:-quick}; shift 2 2>/dev/null
IDS=${@:-C01 C02 C03 C04 C05 C06 C07 C08 C09 C10 C11 C12 C13 C14 C15 C16 C17 C18 C19 C20}
OUT=/tmp/verif-sweep-$SEED-$TIER
if [ -z "$VERIF_SWEEP_REAL" ]; then export VERIF_EVIDENCE_DIR=$OUT/evidence VERIF_REPLAY_DIR=$OUT/replays; fi
mkdir -p $OUT
for id in $IDS; do
  VERIF_SEED=$SEED /verif/check $id $TIER > $OUT/$id.log 2>&1; rc=$?
  echo "rc=$rc $(grep -a '^property=' $OUT/$id.log | tail -1)"
  if [ $rc -ne 0 ]; then grep -a "VIOLATION\|INCONCLUSIVE\|rapid\] failed" $OUT/$id.log | cut -c1-300 | head -4; fi
done
