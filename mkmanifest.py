#!/usr/bin/env python3
"""Regenerates MANIFEST.json from the table below (kept valid at all times)."""
import json, os, sys
sys.path.insert(0, os.path.dirname(os.path.abspath(__file__)))
from checkcfg import PROPS

BASELINE = json.load(open('/root/.vp/BASELINE.json'))['cmd'] if os.path.exists('/root/.vp/BASELINE.json') else ''

TEXT = {
 "C08": dict(
   technique="stateful property-based testing (rapid state machine) with generated removal moments and schedules; oracle = raw database residue scan + ledger/lifecycle model for survivors + re-import convergence",
   text="2..3 wallets share a generated history (shared transactions, pending transactions, staking/binding deposits). At a drawn moment one wallet is removed (wrong passphrases refused first; removal of a still-importing wallet must be refused with the unready error); the real worker's removal steps are served one at a time, interleaved with new blocks, reorganisations, and a close/reopen of the instance between steps. Afterwards: the wallet is not listed and cannot be selected; the closed LevelDB directory is iterated raw and neither its id, nor any of its address strings (standard and staking form), nor any of its 32-byte script hashes may occur in any key or value (except inside pending transactions a survivor still needs); every survivor's ledger (C01 audit) and mined deposit histories equal the chain model after every step, and it can still build and sign a transaction; importing the same mnemonic again succeeds and converges to the model. Two defects found this way were repaired (fix: be78ab7, 0c88703). Exploration: sampled schedules.",
   note="Removal of more than 20000 credits (a second phase-2 step forced by volume) is not generated; multi-step removal is reached through transactions at different heights instead. The pending-spent flag of a survivor's coin whose only pending spender paid the removed wallet is not asserted.",
   ref="DESIGN.md §3 C08"),
 "C07": dict(
   technique="property-based testing (rapid) with generated schedules of rescan sections vs chain changes; oracle = differential against the live-watching original wallet + independent ledger/lifecycle model",
   text="Instance A watches wallet W live through a generated history (addresses with gaps, standard / staking / binding payments and spends, reorgs, lagging notifications). At a drawn moment instance B (fresh database, same simulated node, caught up) imports W from the mnemonic with an index hint 0..issued, or from A's exported keystore. From then on the generator interleaves B's rescan sections (the real worker goroutine, one suspended section per step) with new blocks, reorganisations below/above the rescan cursor, payments to the restored addresses and notifications delivered to A and B in any order; thorough also inserts > 1000 quiet blocks so the rescan spans several batches. Until the rescan finishes B must list W as importing and refuse to select it (unready error); at quiescence B's unspent outputs, balances, addresses-with-history and mined staking/binding records must equal A's (string-wise differential of the full listing) and both must equal the chain model. Exploration: sampled schedules.",
   note="Payments generated during the rescan go to addresses the restored wallet holds (an address the original issued that had no history at restore time is not part of the restored wallet until requested again). Pending (unconfirmed) entries are not compared between A and B (B cannot know A's mempool history). Gap limit 20 with <= 6 addresses, so the restore scan always covers every issued index.",
   ref="DESIGN.md §3 C07"),
 "C04": dict(
   technique="stateful property-based testing (rapid state machine) across several wallet instances; oracle = independent BIP-39/BIP-32 derivation + cross-instance differential + ECDSA verification of signatures under the address keys",
   text="Up to 3 fresh wallet instances (own LevelDB directories, one simulated node) run generated sequences of create (random entropy), import-mnemonic (generated entropy of the five sizes, leading-zero bias, index hints), new addresses of both classes, export + import-keystore elsewhere, restart, public-passphrase change (keystore level) and remove. After every step the wallet id and the address at every index are compared with the harness's own derivation m/44'/coin'/1'/0/i from (mnemonic, passphrase) through the independent references - hence with each other across instances - and SignHash for every issued address (right after issuing from public-only material, after restart, after import) must verify under exactly the public key that address commits to. Exploration: sampled sequences.",
   note="Wallets whose path crosses the C14 known finding (short m/44' or m/44'/coin' scalar) are excluded (counted as excluded_known) so that finding is not double-counted. Private-passphrase change is not exercised (its API is disabled in the repository and it would change the mnemonic-to-seed mapping).",
   ref="DESIGN.md §3 C04"),
 "C05": dict(
   technique="stateful property-based testing (rapid state machine) with an interposed database that records every byte written; oracle = substring scan for every secret known from the harness's own derivation + passphrase accept/refuse table + commit counting",
   text="The C04 state machine with secret-needing operations (sign-hash, export, reveal mnemonic, remove wallet) under the right passphrase and generated wrong ones (edit distance 1, prefix, case, another wallet's, the public passphrase, empty, over-long, arbitrary bytes), also while keys are still unlocked, interleaved with restarts, public-passphrase changes and re-imports. Every secret the harness derives itself (mnemonic sentence and every 4-word window, entropy, seed, master/purpose/coin/account/branch xprv strings and scalars, per-address private scalars, both passphrases; raw, hex, HEX, base58) is searched in every key and value ever written through the interposed database, in the final LevelDB entries and raw files of every instance, in all exported JSON and in every error text. Wrong passphrase: passphrase error and zero database commits; right passphrase: success - before and after refused attempts, restarts, public-passphrase changes. Exploration: sampled sequences (hundreds of thousands of byte strings scanned per run).",
   note="Trusted: goleveldb for the final scan. The scan finds verbatim / hex / base58 occurrences; an encoding of a secret under some other reversible transformation would not be found. Memory (zeroing after use) is not observable with this technique and is not claimed.",
   ref="DESIGN.md §3 C05"),
 "C02": dict(
   technique="property-based testing (rapid): generated UTXO sets x request sequences; oracle = validity predicate over the decoded transaction + success/failure regions (many correct outputs exist, so a predicate rather than one expected transaction)",
   text="Wallet coin sets are produced by generated chains (fan-out transactions with amounts {1,2,5}x10^k incl. dust-sized and repeated amounts, coins larger than any target, immature coinbase, staking/binding deposits, coins spent by pending transactions, another wallet's coins; in thorough occasionally more than the 649-coin selection cap). Sequences of 1..6 create calls (AutoCreateRawTransaction, EstimateTxFee, CreateStakingTransaction, CreateBindingTransaction, CreateRawTransaction with explicit inputs incl. foreign / unknown / duplicate ones) draw output maps, user fee (0, tiny, large), lock time, sender / change address (own, foreign, empty), payload, subtract-fee sets. Each returned transaction is decoded and checked: inputs distinct and owned by the selected wallet (and sender address); under automatic selection only unspent, mature, unlocked, not pending-spent, not reserved by an earlier draft of the sequence; outputs multiset = request (fee-bearing ones reduced by equal shares summing to the fee) + at most one change to the requested address else the first input's address; sum(in)-sum(out) == reported fee >= user fee and >= relay minimum of the size after actually signing it; above the user's fee only within the relay minimum of a standard-size transaction; must-succeed / must-fail (insufficient-funds error) regions. One defect found (duplicate explicit inputs) was repaired (fix: ce10f3b). Exploration: sampled.",
   note="Requests keep amounts above the dust threshold (dust rejection is not part of the statement). Between the must-succeed and must-fail regions either outcome is accepted. The api-level fee ceiling is exercised in C19's API runs, not here. The node's own mempool is empty.",
   ref="DESIGN.md §3 C02"),
 "C03": dict(
   technique="property-based testing (rapid): generated wallets/chains/transactions/flags/passphrase attempt sequences; oracle = independent consensus script-engine run + ECDSA verification under independently derived keys + field-wise comparison",
   text="Wallets imported from generated mnemonics receive coins through a generated chain (standard, coinbase, staking, old and new binding outputs on several addresses; optionally outputs of still-pending transactions). Transactions over 1..6 of the selected wallet's unspent outputs (consensus sequences, 1..6 outputs, lock time, payload) are signed with each of the six sighash flags under attempt sequences mixing the right passphrase with wrong ones (edit distance 1, prefix, case change, other wallet's, empty, over-long, non-alphabet bytes, padded). Right passphrase: must succeed, returned bytes must decode to the same transaction in every non-witness field (and same txid), every input must execute in a fresh txscript engine against the spent output (MASSip2 flag by parent height), the witness script must be the 1-of-1 redeem script of the address and the signature must verify (ECDSA) under the public key the harness derived itself (BIP-39/BIP-32 reference) over the engine's digest for that flag. Wrong passphrase: error, nil bytes, caller's transaction untouched - also directly after a success. One defect found (panic on a pending parent) was repaired (fix: 72d579e). Exploration: sampled.",
   note="Trusted: mass-core txscript engine and digest (consensus), btcec. For the two SINGLE modes the generator keeps #outputs >= #inputs (documented precondition). Wallets whose path crosses the C14 known finding are not generated.",
   ref="DESIGN.md §3 C03"),
 "C12": dict(
   technique="stateful property-based testing (rapid state machine) with an address-issuance reference model and an independent key derivation; restore compared with the statement's scan rule",
   text="For gap limits 2..8, generated sequences of new-address requests (standard / staking), payments to arbitrary issued addresses, reorganisations removing recent payments, and wallet restarts are run on the real wallet; each issued address must equal the harness's own BIP-39/BIP-32 derivation at the next external index (class form), be distinct from all earlier ones, stay listed by GetAddresses (also after restart) with used == the best chain pays it; NewAddress must fail with the gap error exactly when none of the last gap-limit addresses has chain history and succeed otherwise. Finally the mnemonic is restored in a fresh instance with a generated index hint and the discovered address count must equal the scan rule (derive until gap-limit consecutive unused), which contains every funded address the rule can reach, with correct used flags after the rescan. One defect found (issued address vanished from the list after a reorg removed its first payment) was repaired (fix: 0304e7f). Exploration: sampled histories.",
   note="Standard-class addresses are paid with standard outputs and staking-class addresses with staking outputs (what 'a payment to it' means for the other class form is not defined by the statement). Restore completeness is asserted for the addresses the scan rule can reach: a reorg that removes the payment an issuance relied on can leave a larger gap, which no wallet can repair. Wallets whose derivation path crosses the C14 known finding are not generated.",
   ref="DESIGN.md §3 C12"),
 "C10": dict(
   technique="stateful property-based testing (rapid state machine) with a deposit-lifecycle reference model folded from the node's best chain and the pending set",
   text="Histories rich in staking outputs (frozen period drawn from the legal range incl. the minimum), old-style binding before the warm-up height and new-style binding after it, withdrawals of matured staking and old-binding deposits, pending versions of deposits and withdrawals, and reorganisations across deposit and withdrawal blocks. After every step GetStakingHistory / GetBindingHistory (with and without excludeWithdrawn) are compared as multisets with the model (tx, index, height, amount, staking address / holder + binding target, frozen period, withdrawn flag, spent-by-pending flag, carried transaction); Spendable / withdrawable_* flip at the consensus height (C01 audit, run here too); explicit-input withdrawals built by CreateRawTransaction must carry sequence F+1 / binding lock, and the harness's replica of calcSequenceLock + SequenceLockActive must accept the built staking withdrawal exactly from the height at which the deposit is reported withdrawable. Exploration: sampled histories.",
   note="Trusted: mass-core as the node. New-style binding withdrawals are never put on chain (the node cannot connect such a block), so for them only the built transaction's sequence and the withdrawable flag are checked. Consensus parameters scaled by profile small (min frozen period 2, warm-up height 14, binding lock 5, min staking value 0.01 MASS).",
   ref="DESIGN.md §3 C10"),
 "C09": dict(
   technique="stateful property-based testing (rapid state machine) with a pending-set reference model; wallet stores read back and decoded",
   text="On top of C01's world, generated unconfirmed transactions (spends of wallet coins, payments to the wallet, chains through wallet-owned and foreign outputs, duplicates, conflicting spends of one wallet coin) are delivered to the handler's mempool step and interleaved with blocks that confirm a generated subset, confirm conflicting spends, and reorganisations that un-confirm them (re-mined / dropped / double-spent through a wallet coin). After every step the pending-set model (insert, dedupe, settle once, purge conflict with ALL unconfirmed descendants, return on un-confirm) is compared with: the pending store read back and decoded to the same transaction, GetUtxo.spent_by_unmined of every wallet coin, the inputs of AutoCreateRawTransaction drafts, residue in the pending-input and pending-credit stores, and C01's ledger audit (pending credits not counted, confirmed exactly once). Three defects found this way were repaired (fix: 910897a, 30c03a0, d073483) and stay as deterministic regression histories. Exploration: sampled histories.",
   note="The wallet is told only about relevant transactions, so conflicts that involve none of its coins or addresses are invisible to it by construction; the generator therefore never lets a block double-spend a pending transaction through a coin no wallet owns, and purges pending spenders of a disconnected coinbase only when a wallet owns that output. Notifications are delivered immediately in this check (lag is C01's subject). The node's own mempool is kept empty.",
   ref="DESIGN.md §3 C09"),
 "C01": dict(
   technique="stateful property-based testing (rapid state machine): generated chain histories on a simulated node built from real mass-core components, real wallet driven in stepped mode, compared with an independent ledger model (fold over the best chain)",
   text="Generated histories (new addresses; blocks with coinbase / standard / staking / old+new binding / nulldata outputs, spends of any mature coin, in-block spend chains, transactions paying several wallets; reorganisations of depth 1..8 with every rolled-back transaction re-mined, dropped or double-spent and ONE notification for the new tip, incl. equal-length replacement; un-announced blocks; notifications queued and delivered later, after the chain moved again) run against the real WalletManager/NtfnsHandler (the harness plays the handler's select loop through build-tag hooks). At every quiescent point UseWallet total, WalletBalance (several confs), AddressBalance (all / subsets), GetUtxo (per-address grouping, amount, height, confirmations, spendable flag) and SyncedTo are compared with a ledger recomputed by a plain fold over the node's best chain using the consensus maturity formulas. Two defects found this way were repaired (fix: 8220227, 3292e36) and stay as deterministic regression histories. Exploration: sampled histories, not exhaustive.",
   note="Trusted: mass-core chain DB / address index / codecs (they are 'the node'), rapid. Consensus parameters are scaled down through mass-core's package variables (profile small: coinbase maturity 4, min frozen period 2, warm-up height 14, binding lock 5) so boundaries fall inside 10-60 block histories. Not generated because the node itself cannot connect such blocks: spends of new-style bindings, spends of a binding inside its creating block. Zero-value outputs to wallet addresses are not generated (the wallet documents skipping them). SpentByUnmined is C09's subject and not compared here.",
   ref="DESIGN.md §3 C01"),
 "C11": dict(
   technique="stateful property-based testing (rapid state machine) of mwdb+ldb against an in-memory nested-map reference model",
   text="Generated histories of write transactions (nested bucket create/delete to depth 4, put/delete/clear, point/prefix reads, listings; keys with 0x00/0xff runs, '_' separators, depth-prefix and bucket-index look-alikes) ending in commit, error return or rollback, with a concurrent read transaction opened inside the write transaction (isolation), read-only audits after every transaction (point reads, prefix reads, nil/prefix/explicit-range iteration ascending-once, seek) and close/reopen, are executed on the real LevelDB-backed wallet database and on a nested-map model; every observable is compared after every step. Exploration: sampled histories (hundreds quick, thousands thorough), not exhaustive.",
   note="Trusted: goleveldb. Ordering is asserted only for committed entries (as the statement says), not for iterators inside a write transaction with pending changes; the result of re-creating a bucket created earlier in the same transaction and Bucket() lookups of a bucket deleted earlier in the same transaction are not asserted (the statement covers point reads, prefix reads and listings). Each case costs ~0.2 s because the repository opens LevelDB with a 128 MiB write buffer.",
   ref="DESIGN.md §3 C11"),
 "C16": dict(
   technique="property-based testing (rapid) differential against the consensus txscript library (GetScriptClass / ExtractPkScriptAddrs) + independent byte-template predicate + builder round trips; native go fuzzing over raw script bytes in thorough",
   text="Scripts generated from the three witness templates (random hashes, legal/edge/illegal frozen periods, 20- and 22-byte targets incl. illegal target types), nulldata, multisig, non-canonical pushes, each optionally truncated / bit-flipped / extended / re-pushed, and random bytes, are read by utils.ParsePkScript; class, owner address, staking/binding address, maturity and address class must agree with the consensus library, every non-template class must read as the ErrUnsupportedScript sentinel, and nothing may panic. Scripts built by PayToWitnessV0Address / PayToStakingAddrScript / PayToBindingScriptHashScript (the constructors the wallet uses) must read back to exactly the inputs. The nulldata defect found this way was repaired (fix: 26e48e1). Exploration: sampled.",
   note="Trusted: mass-core txscript/massutil as 'consensus'. The library's own ExtractPkScriptAddrs panics on multisig scripts with unparsable keys, so it is consulted for the three templates only. api.extractAddressInfos (unexported) is exercised through the API in C19, not here.",
   ref="DESIGN.md §3 C16"),
 "C15": dict(
   technique="property-based testing (rapid) against an exact big-integer decimal reference (round trip + accept/reject oracle); native go fuzzing of the parser in thorough",
   text="Integers in and around [0, max supply] (powers of ten +-1, trailing zeros, range edges, negatives) are formatted by api.AmountToString and masswallet.AmountToString and compared with the shortest-decimal reference, then parsed back. Strings from the grammar digits[.digits] with redundant zeros, empty halves, supply-limit neighbours, symbol soup (+ - e E _ , space), arbitrary Unicode and hostile constants are parsed by api.StringToAmount: valid numerals must give exactly value*10^8, everything else must be rejected. The sign/empty-input defect found this way was repaired (fix: 88a50ee) and stays in the regression list. Exploration: sampled.",
   note="Trusted: math/big, rapid. '5.' and '.5' count as numerals (the repository's own table accepts them); '' and '.' do not.",
   ref="DESIGN.md §3 C15"),
 "C14": dict(
   technique="property-based testing (rapid) against an independent fixed-width BIP-32 reference + spec vectors 1-5; targeted generator for short-scalar parents; native go fuzzing of the parser in thorough",
   text="Seeds x paths (depth <= 6, hardened/non-hardened/boundary indexes) are derived in hdkeychain and in a reference written from the BIP-32 text; every node is compared on serialisation, depth, fingerprint, keys, Neuter, CKDpub==N(CKDpriv), parse round trip. A sub-generator scans for parents with a leading-zero scalar (the 1/256 class a vector list cannot reach). Serialised keys are corrupted (byte flips, re-checksummed edits, wrong length, scalar 0/>=n, off-curve) and acceptance compared. The one confirmed deviation (hardened child of a short-scalar parent, spec vector 4) is a known finding, excluded by construction and reproduced deterministically on every run. Exploration: sampled, not proved.",
   note="Trusted: btcec curve arithmetic (used by both sides), Go stdlib hmac/sha512, rapid. Version/key-type cross-check of BIP-32 vector 5 is not asserted (the statement lists checksum, length, off-curve and out-of-range only).",
   ref="DESIGN.md §3 C14"),
 "C13": dict(
   technique="property-based testing (rapid) against an independent bit-level BIP-39 reference + published vectors; native go fuzzing of the acceptance predicate in thorough",
   text="Generated entropies of all five legal sizes (all-zero, all-one, leading-zero bytes/bits, random), passphrases and mutated word sequences are run through NewMnemonic / EntropyFromMnemonic / MnemonicToByteArray / NewSeedWithErrorChecking / IsMnemonicValid and compared with a reference written from the BIP-39 text (no big integers) that is itself validated on the Trezor vectors at start-up. Exploration: it samples the input space (thousands of cases quick, ~250k thorough + coverage-guided fuzzing), it does not prove absence.",
   note="Trusted: Go stdlib sha256/sha512/hmac, the embedded word list (sha256-pinned to the published english.txt), rapid. Seed equality asserted for canonical single-space sentences only.",
   ref="DESIGN.md §3 C13"),
}

def main():
    checks, na = [], []
    props = [json.loads(l) for l in open('properties.jsonl')]
    for p in props:
        pid = p['id']
        if pid in PROPS and pid in TEXT:
            t = TEXT[pid]
            c = {
              "property_id": pid,
              "quick_cmd": "./check %s quick" % pid,
              "thorough_cmd": "./check %s thorough" % pid,
              "evidence_file": "/verif/evidence/%s.json" % pid,
              "replay_cmd_template": "./check %s --replay {path}" % pid,
              "engine": "harness",
              "level_claimed": {"category": PROPS[pid]["level"], "text": t["text"], "design_ref": t["ref"]},
              "level_note": t["note"],
              "technique": t["technique"],
            }
            checks.append(c)
        else:
            na.append({"property_id": pid, "reason": "check not built yet in this session (work in progress; the technique applies, see DESIGN.md)"})
    m = {
      "version": 1,
      "setup_cmd": "./check --build",
      "hooks": {
        "guard": "verif",
        "enable": "go test -tags verif (harness module /verif/harness with replace massnet.org/mass-wallet => /repo)",
        "baseline_off_cmd": BASELINE,
        "source_commits": HOOK_COMMITS,
        "add_only": True,
      },
      "engines": [{"name": "harness", "path": "/verif/harness", "serves_properties": [c["property_id"] for c in checks],
                   "kind_free_text": "Go test binary (pgregory.net/rapid v1.3.0 + native go fuzzing) driven by /verif/check; real wallet code over a simulated node built from real mass-core components"}],
      "checks": checks,
      "notes": "exit codes: 0 held / 1 VIOLATION / 2 INCONCLUSIVE. VERIF_SEED selects the rapid PRNG seed (0 remapped to 1). known findings: /verif/known_findings.json",
      "not_applicable": na,
    }
    json.dump(m, open('MANIFEST.json', 'w'), indent=1)

HOOK_COMMITS = []
if os.path.exists(os.path.join(os.path.dirname(os.path.abspath(__file__)), 'hook_commits.txt')):
    HOOK_COMMITS = [l.strip() for l in open(os.path.join(os.path.dirname(os.path.abspath(__file__)), 'hook_commits.txt')) if l.strip()]

if __name__ == '__main__':
    main()
