#!/bin/bash
# usage: tools_seedconfirm2.sh <round-dir under /tmp> <id> <pkgdir> <runpattern>
# Harness development tool: confirms a sub-agent's seeded change in its scratch worktree - the demonstration
# fails with the change, passes without it, and the existing tests pass with it.
export GOFLAGS=-mod=mod GOPROXY=off GOSUMDB=off GOTOOLCHAIN=local
rnd=$1; id=$2; pkg=$3; pat=$4
cd /tmp/$rnd/$id || exit 1
echo "######## $id"
git checkout -- . && git apply _seed/patch.diff || { echo "patch does not apply"; exit 1; }
git diff --stat | tail -1
cp _seed/seed_demo_test.go $pkg/zz_seed_demo_test.go
echo "== with change (expect FAIL)"; nice -n 10 go test -vet=off -count=1 -run "$pat" ./$pkg/ 2>&1 | grep -v "ld: \|^#" | tail -3
git checkout -- .
echo "== without change (expect ok)"; nice -n 10 go test -vet=off -count=1 -run "$pat" ./$pkg/ 2>&1 | grep -v "ld: \|^#" | tail -3
rm -f $pkg/zz_seed_demo_test.go
git apply _seed/patch.diff
echo "== existing tests with the change"; nice -n 10 go test -vet=off -count=1 ./masswallet/... ./cmd/... 2>&1 | grep -v "ld: \|^#\|no test files" | tr '\n' ';'; echo
git status --short | head -5
