"""Per-property job table for ./check (quick / thorough budgets)."""

def rapid(name, run, quick, thorough, **kw):
    d = {"name": name, "run": run, "quick": quick, "thorough": thorough}
    d.update(kw)
    return d

def fuzz(name, target, fuzztime, workers=8, timeout=None):
    t = {"fuzztime": fuzztime, "workers": workers}
    if timeout:
        t["timeout"] = timeout
    return {"name": name, "kind": "fuzz", "target": target, "thorough": t}

PROPS = {
    "C19": {
        "level": "exploration",
        "jobs": [
            rapid("api", "^TestC19$", {"checks": 15, "steps": 40, "shards": 8, "timeout": 900, "shrinktime": "30s"},
                  {"checks": 300, "steps": 60, "shards": 14, "timeout": 5000, "shrinktime": "120s"}),
        ],
    },
    "C17": {
        "level": "exploration",
        "jobs": [
            rapid("boundary", "^TestC17$", {"checks": 40, "shards": 8, "timeout": 900, "shrinktime": "20s"},
                  {"checks": 900, "shards": 12, "timeout": 6000, "shrinktime": "60s"}),
            rapid("race", "^TestC17Race$", {"checks": 3, "shards": 3, "timeout": 900, "shrinktime": "1s"},
                  {"checks": 40, "shards": 6, "timeout": 6000, "shrinktime": "1s"},
                  race=True, env={"VERIF_NO_PUBLISH_HEIGHT": "1"}, seed_offset=3),
        ],
    },
    "C20": {
        "level": "exploration",
        "jobs": [
            rapid("stop", "^TestC20$", {"checks": 25, "shards": 8, "timeout": 900, "shrinktime": "20s"},
                  {"checks": 400, "shards": 14, "timeout": 6000, "shrinktime": "60s"}),
        ],
    },
    "C06": {
        "level": "fault_enumeration",
        "jobs": [
            rapid("crash", "^TestC06$", {"checks": 6, "shards": 12, "timeout": 900, "shrinktime": "30s"},
                  {"checks": 10, "shards": 14, "timeout": 7000, "shrinktime": "120s"}),
        ],
    },
    "C18": {
        "level": "fault_enumeration",
        "jobs": [
            rapid("faults", "^TestC18$", {"checks": 12, "shards": 10, "timeout": 900, "shrinktime": "30s"},
                  {"checks": 12, "shards": 14, "timeout": 6000, "shrinktime": "120s"}),
        ],
    },
    "C08": {
        "level": "exploration",
        "jobs": [
            rapid("removal", "^TestC08$", {"checks": 24, "steps": 35, "shards": 8, "timeout": 900, "shrinktime": "30s"},
                  {"checks": 200, "steps": 50, "shards": 14, "timeout": 5000, "shrinktime": "120s"}),
        ],
    },
    "C07": {
        "level": "exploration",
        "jobs": [
            rapid("restore", "^TestC07$", {"checks": 20, "steps": 25, "shards": 8, "timeout": 900, "shrinktime": "30s"},
                  {"checks": 300, "steps": 45, "shards": 14, "timeout": 5000, "shrinktime": "120s"}),
        ],
    },
    "C04": {
        "level": "exploration",
        "jobs": [
            rapid("keystore", "^TestC04$", {"checks": 8, "steps": 25, "shards": 8, "timeout": 900, "shrinktime": "30s"},
                  {"checks": 200, "steps": 40, "shards": 14, "timeout": 5000, "shrinktime": "120s"}),
        ],
    },
    "C05": {
        "level": "exploration",
        "jobs": [
            rapid("keystore", "^TestC05$", {"checks": 8, "steps": 25, "shards": 8, "timeout": 900, "shrinktime": "30s"},
                  {"checks": 200, "steps": 40, "shards": 14, "timeout": 5000, "shrinktime": "120s"}, seed_offset=3),
        ],
    },
    "C02": {
        "level": "exploration",
        "jobs": [
            rapid("create", "^TestC02$", {"checks": 30, "shards": 8, "timeout": 900, "shrinktime": "30s"},
                  {"checks": 700, "shards": 14, "timeout": 5000, "shrinktime": "120s"}),
        ],
    },
    "C03": {
        "level": "exploration",
        "jobs": [
            rapid("sign", "^TestC03$", {"checks": 25, "shards": 8, "timeout": 900, "shrinktime": "30s"},
                  {"checks": 600, "shards": 14, "timeout": 5000, "shrinktime": "120s"}),
        ],
    },
    "C12": {
        "level": "exploration",
        "jobs": [
            rapid("issuance", "^TestC12$", {"checks": 10, "steps": 35, "shards": 8, "timeout": 900, "shrinktime": "30s"},
                  {"checks": 150, "steps": 60, "shards": 14, "timeout": 5000, "shrinktime": "120s"}),
        ],
    },
    "C10": {
        "level": "exploration",
        "jobs": [
            rapid("lifecycle", "^TestC10$", {"checks": 30, "steps": 35, "shards": 8, "timeout": 900, "shrinktime": "30s"},
                  {"checks": 500, "steps": 60, "shards": 14, "timeout": 7000, "shrinktime": "120s"}),
        ],
    },
    "C09": {
        "level": "exploration",
        "jobs": [
            rapid("regress", "^TestC09Regress$", {"checks": 1, "timeout": 300}, {"checks": 1, "timeout": 300}),
            rapid("pending", "^TestC09$", {"checks": 30, "steps": 35, "shards": 8, "timeout": 900, "shrinktime": "30s"},
                  {"checks": 500, "steps": 60, "shards": 14, "timeout": 7000, "shrinktime": "120s"}),
        ],
    },
    "C01": {
        "level": "exploration",
        "jobs": [
            rapid("regress", "^TestC01Regress$", {"checks": 1, "timeout": 300}, {"checks": 1, "timeout": 300}),
            rapid("ledger", "^TestC01$", {"checks": 40, "steps": 30, "shards": 8, "timeout": 900, "shrinktime": "30s"},
                  {"checks": 700, "steps": 60, "shards": 14, "timeout": 5000, "shrinktime": "120s"}),
        ],
    },
    "C11": {
        "level": "exploration",
        "jobs": [
            rapid("model", "^TestC11$", {"checks": 45, "steps": 20, "shards": 6, "timeout": 600, "shrinktime": "15s"},
                  {"checks": 500, "steps": 40, "shards": 12, "timeout": 3000, "shrinktime": "60s"}),
        ],
    },
    "C16": {
        "level": "exploration",
        "jobs": [
            rapid("pbt", "^TestC16$", {"checks": 20000, "timeout": 300}, {"checks": 300000, "shards": 6, "timeout": 2400}),
            fuzz("fuzz", "FuzzC16", "90s", timeout=400),
        ],
    },
    "C15": {
        "level": "exploration",
        "jobs": [
            rapid("pbt", "^TestC15$", {"checks": 20000, "timeout": 300}, {"checks": 400000, "shards": 6, "timeout": 2400}),
            rapid("cli", "^TestC15Cli$", {"checks": 20000, "timeout": 300}, {"checks": 300000, "shards": 4, "timeout": 2400}, seed_offset=5),
            fuzz("fuzz", "FuzzC15", "90s", timeout=400),
        ],
    },
    "C14": {
        "level": "exploration",
        "jobs": [
            rapid("pbt", "^TestC14$", {"checks": 1500, "timeout": 300}, {"checks": 30000, "shards": 6, "timeout": 2400}),
            fuzz("fuzz", "FuzzC14", "90s", timeout=400),
        ],
    },
    "C13": {
        "level": "exploration",
        "jobs": [
            rapid("pbt", "^TestC13$", {"checks": 1500, "timeout": 300}, {"checks": 40000, "shards": 6, "timeout": 2400}),
            fuzz("fuzz", "FuzzC13", "90s", timeout=400),
        ],
    },
}
